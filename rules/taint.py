"""R-GUARD / R-ALLOC: untrusted sizes and indices must be checked before they size an
allocation, index memory or feed an unsafe access.

Two kinds of untrusted values per function:
  BUF    : a buffer whose *content* is untrusted (its length is trusted)
  SCALAR : an integer read out of such a buffer (or produced by a source call)
Every SCALAR carries the set of source sites ("roots") it derives from. A sink whose
operand is SCALAR is discharged by a dominating, deciding guard that compares a value
sharing a root with the operand against something that is not itself untrusted, or by a
clamp (min / & / %) against an untrusted-free value, or by a narrow source width.
Shape is checked, arithmetic is not.
"""
import re
from collections import defaultdict, deque

from vlib.mir import Fn, op_local, op_place, op_const, rv_operands, place_locals

INT_TYPES = {"u8": 8, "u16": 16, "u32": 32, "u64": 64, "usize": 64, "u128": 128,
             "i8": 8, "i16": 16, "i32": 32, "i64": 64, "isize": 64, "i128": 128}

BUF_RE = re.compile(r"^(&(mut )?)*(\[u8\]|\[u8; [^\]]+\]|std::vec::Vec<u8>|std::boxed::Box<\[u8\]>|"
                    r"std::borrow::Cow<'[^,]*, \[u8\]>|str|std::string::String|memmap2::Mmap)$")
BUFISH_RE = re.compile(r"\[u8\]|\[u8; |Vec<u8>|slice::Iter<'[^,]*, u8>|Chunks|memmap2::Mmap")

LOOKUP_CALLS = ("get", "get_mut", "get_key_value", "contains_key", "contains", "entry", "remove", "get_or_insert_with")
LEN_CALLS = ("len", "is_empty", "capacity", "as_ptr", "as_mut_ptr", "remaining", "size")
PASS_BUF_CALLS = ("deref", "deref_mut", "as_ref", "as_mut", "as_slice", "as_mut_slice", "as_bytes", "borrow",
                  "index", "index_mut", "get", "get_mut", "get_unchecked", "get_unchecked_mut", "split_at",
                  "split_at_mut", "split_at_checked", "iter", "iter_mut", "into_iter", "chunks", "chunks_exact",
                  "windows", "to_vec", "to_owned", "clone", "unwrap", "expect", "branch", "ok_or", "ok_or_else",
                  "map_err", "try_into", "into", "from", "first", "last", "split_first", "split_last", "next",
                  "by_ref", "take", "skip", "enumerate", "zip", "rev", "peekable", "copied", "cloned", "as_str",
                  "bytes", "from_residual", "unwrap_or", "unwrap_or_default", "ok", "map", "and_then", "new",
                  "strip_prefix", "strip_suffix", "trim_ascii", "try_from", "from_raw_parts", "from_raw_parts_mut")

SRC_CALL_RE = re.compile(
    r"core::num::<impl [ui](8|16|32|64|128|size)>::from_(le|be|ne)_bytes$"
    r"|DataInput::read_(u8|u16|u32|u64|i8|i16|i32|i64|var_int|length_prefix|f32|f64)"
    r"|DataInput>::read_(u8|u16|u32|u64|i8|i16|i32|i64|var_int|f32|f64)"
    r"|::read_(u8|u16|u32|u64|i8|i16|i32|i64|var_int|varint|uleb128|leb128)(_le|_be)?$"
    r"|io::var_int::VarInt::(decode|read_from|decode_signed|from_bytes)"
    r"|byteorder|bytemuck::.*::pod_read_unaligned")
FILL_BUF_RE = re.compile(r"Read::read_exact$|Read::read$|Read::read_to_end$|DataInput::read_bytes$|::read_exact$|"
                         r"DataInput>::read_bytes$|::read_bytes$")

ALLOC_SINKS = [
    (re.compile(r"Vec::<.*>::with_capacity(_in)?$|::with_capacity$|::with_capacity_and_hasher$"), 0),
    (re.compile(r"std::vec::from_elem$|alloc::vec::from_elem$"), 1),
    (re.compile(r"Vec::<.*>::resize$|Vec::<.*>::reserve(_exact)?$|::reserve(_exact)?$|::resize$|"
                r"String::reserve$|VecDeque::<.*>::reserve$"), 1),
    (re.compile(r"std::string::String::with_capacity$"), 0),
    (re.compile(r"Box::<\[.*\]>::new_uninit_slice$|Box::<\[.*\]>::new_zeroed_slice$"), 0),
    (re.compile(r"std::alloc::Layout::array$|core::alloc::Layout::array$|Layout::from_size_align(_unchecked)?$"), 0),
    (re.compile(r"std::iter::repeat_n$"), 1),
]
UNSAFE_SINKS = [
    (re.compile(r"get_unchecked(_mut)?$"), 1, "get_unchecked"),
    (re.compile(r"ptr::(mut_ptr|const_ptr)::<impl \*(mut|const) T>::(add|offset|sub|byte_add)$|NonNull::<T>::add$"), 1, "ptr.add"),
    (re.compile(r"(ptr|intrinsics)::copy_nonoverlapping$|ptr::copy$|ptr::write_bytes$"), 2, "copy"),
    (re.compile(r"slice::from_raw_parts(_mut)?$"), 1, "from_raw_parts"),
    (re.compile(r"Vec::<.*>::set_len$"), 1, "set_len"),
]
SLICE_INDEX_RE = re.compile(r"ops::Index(Mut)?<.*>.*::index(_mut)?$|slice::index::<impl .*Index(Mut)?<I> for \[T\]>::index(_mut)?$|"
                            r"<impl .*Index(Mut)?<I> for (str|std::string::String)>::index(_mut)?$")
SPLIT_RE = re.compile(r"core::slice::<impl \[T\]>::(split_at|split_at_mut|copy_within|rotate_left|rotate_right)$|"
                      r"Vec::<.*>::(truncate_front|split_off|drain|remove|swap_remove)$")
UNWRAP_RE = re.compile(r"(option::Option|result::Result)::<.*>::(unwrap|expect)$")
PANIC_RE = re.compile(r"core::panicking::(panic|panic_fmt|panic_explicit|unreachable_display|assert_failed|panic_nounwind)"
                      r"|std::rt::begin_panic|core::panicking::panic_const")
CMP_OPS = ("Lt", "Le", "Gt", "Ge", "Eq", "Ne")
CLAMP_CALLS = ("min", "clamp")
CHECK_CALLS = re.compile(r"::checked_(add|sub|mul|div|rem|shl|shr|pow|next_power_of_two)$|::try_from$|::try_into$|"
                         r"::get(_mut)?$|::split_at_checked$|::first$|::last$|::split_first$|::strip_prefix$|"
                         r"::is_char_boundary$|::contains_key$|::contains$|::starts_with$|::ends_with$|::get_or$")


def _named_field(e):
    """projection element naming a struct field (not a tuple / enum-payload position)"""
    return isinstance(e, str) and e.startswith(".") and "::" in e and not e.rsplit("::", 1)[1].isdigit()


def int_width(ty):
    ty = ty.replace("&", "").replace("mut ", "").strip()
    return INT_TYPES.get(ty)


def is_buf_type(ty):
    return bool(BUF_RE.match(ty))


def is_bufish(ty):
    return bool(BUFISH_RE.search(ty))


def has_int(ty):
    return re.search(r"\b(u8|u16|u32|u64|usize|u128|i8|i16|i32|i64|isize|i128)\b", ty) is not None


class FnTaint:
    def __init__(self, fn, buf_params=(), scalar_params=(), buf_fields=(), scalar_fields=(), summaries=None,
                 extra_sources=None):
        self.fn = fn
        self.buf = set()                 # BUF locals
        self.roots = defaultdict(set)    # SCALAR local -> root ids
        self.root_desc = []              # id -> description
        self.clean_bounded = set()       # locals produced by clamp/mask against an untrusted-free value
        self.site_roots = defaultdict(set)   # def location -> roots written there
        self.site_new = defaultdict(set)     # def location -> roots created there (sources)
        self.param_roots = defaultdict(set)
        self._dmemo = {}
        self._dprog = set()
        self.tuple_clean = defaultdict(set)  # local holding a (wrapped) tuple -> trusted tuple fields
        self._cur_loc = None
        self.buf_fields = [re.compile(x) for x in buf_fields]
        self.scalar_fields = [re.compile(x) for x in scalar_fields]
        self.summaries = summaries
        self.extra_sources = extra_sources
        fn._build_uses()
        self.env_buf = {-p - 1 for p in buf_params if p < 0}
        self.env_scalar = {-p - 1 for p in scalar_params if p < 0}
        for p in buf_params:
            if p > 0:
                self.buf.add(p)
        for p in scalar_params:
            if p > 0:
                self._new_root(p, "param %s" % fn.local_name(p), int_width(fn.ty(p)) or 64)
        self._seed()
        self._propagate()
        if self._container_pass():
            self._propagate()

    def _new_root(self, l, desc, width):
        rid = len(self.root_desc)
        self.root_desc.append((desc, width))
        self.roots[l].add(rid)
        if self._cur_loc is not None:
            self.site_roots[self._cur_loc].add(rid)
            self.site_new[self._cur_loc].add(rid)
        else:
            self.param_roots[l].add(rid)
        return rid

    # ------------------------------------------------------------------
    def _field_kind(self, place):
        if place[0] == 1 and (self.env_buf or self.env_scalar):
            for e in place[1:]:
                if isinstance(e, str) and re.match(r"^\.\d+$", e):
                    i = int(e[1:])
                    if i in self.env_buf:
                        return "buf"
                    if i in self.env_scalar:
                        return "scalar"
                    break
        if self.summaries is not None:
            last = None
            for e in place[1:]:
                if _named_field(e):
                    last = e[1:]
            if last is not None:
                if last in self.summaries.reg_buf:
                    return "buf"
                if last in self.summaries.reg_scalar:
                    return "scalar"
        for e in place[1:]:
            if isinstance(e, str) and e.startswith("."):
                k = e[1:]
                for rx in self.buf_fields:
                    if rx.search(k):
                        return "buf"
                for rx in self.scalar_fields:
                    if rx.search(k):
                        return "scalar"
        return None

    def _seed(self):
        fn = self.fn
        for loc, st in fn.iter_locs():
            self._cur_loc = loc
            if st[0] == "a":
                dst, rv = st[1], st[2]
                for o in rv_operands(rv):
                    p = op_place(o)
                    if p:
                        fk = self._field_kind(p)
                        if fk == "buf" and len(dst) == 1:
                            self.buf.add(dst[0])
                        elif fk == "scalar" and len(dst) == 1 and (has_int(fn.ty(dst[0]))):
                            self.roots[dst[0]] |= self._field_root(p, st[3])
            elif st[0] == "call":
                c = st[1]
                f = c["f"]
                alias = c.get("st", "")
                if SRC_CALL_RE.search(f) or SRC_CALL_RE.search(alias) or \
                        (self.extra_sources and self.extra_sources.search(f)):
                    d = c["d"][0]
                    w = None
                    m = re.search(r"<impl ([ui](?:8|16|32|64|128|size))>::from_", f)
                    if m:
                        w = INT_TYPES[m.group(1)]
                    m2 = re.search(r"read_([ui](?:8|16|32|64))", f)
                    if m2:
                        w = INT_TYPES[m2.group(1)]
                    self._new_root(d, "%s line %s" % (f.rsplit("::", 2)[-2] + "::" + f.rsplit("::", 1)[-1], c["ln"]),
                                   w or int_width(fn.ty(d)) or 64)
                if FILL_BUF_RE.search(f) or FILL_BUF_RE.search(alias):
                    for a in c["a"][1:]:
                        l = op_local(a)
                        if l is not None:
                            for t in fn.points_to(l) or ():
                                self.buf.add(t)
                            if is_bufish(fn.ty(l)):
                                self.buf.add(l)

    def _container_pass(self):
        """values stored into containers (insert/push) taint the container unless the value was
        validated (guard-protected) at the store site"""
        fn = self.fn
        g = None
        changed = False
        for b, c in fn.calls():
            last = c["f"].rsplit("::", 1)[-1]
            if last not in ("insert", "push", "push_back", "push_front") or len(c["a"]) < 2:
                continue
            if not any(k in c["f"] for k in ("HashMap", "BTreeMap", "Vec", "VecDeque", "HashSet", "FastVec")):
                continue
            r0 = op_local(c["a"][0])
            if r0 is None:
                continue
            targets = set(fn.points_to(r0)) or {r0}
            loc = (b, len(fn.stmts(b)))
            for a in c["a"][-1:]:          # the stored value (for maps: not the key)
                l = op_local(a)
                if l is None or not scalar_like(fn.ty(l)):
                    continue
                roots = self.roots_at(loc, a)
                if not roots:
                    continue
                if g is None:
                    g = Guards(fn, self)
                if g.protecting(b, roots, l, relational=True):
                    continue
                for t in targets:
                    if roots - self.roots.get(t, set()):
                        self.roots[t] |= roots
                        changed = True
                self.site_roots[loc] |= roots
        if changed:
            self._dmemo.clear()
        return changed

    def _call_effect(self, c, dst):
        """effect of a call on its destination given current facts; returns changed"""
        fn = self.fn
        f = c["f"]
        last = f.rsplit("::", 1)[-1]
        dty = fn.ty(dst)
        arg_locals = [op_local(a) for a in c["a"]]
        arg_locals = [a for a in arg_locals if a is not None]
        any_buf = any(a in self.buf for a in arg_locals)
        s_roots = set()
        for a in arg_locals:
            s_roots |= self.roots.get(a, set())
        changed = False
        # getters of explicitly untrusted fields, directly or through a closure handed to a std combinator
        if self.summaries is not None and not any_buf and not s_roots and has_int(dty) \
                and (self.summaries.cfg_scalar_fields or self.summaries.cfg_buf_fields) and self._cur_loc is not None \
                and not self.site_new.get(self._cur_loc):
            src = None
            if c.get("loc") and self.summaries.fx.has(f):
                if self.summaries.returns_source(f):
                    src = last
            elif not c.get("loc") and last not in LEN_CALLS:
                for a in arg_locals:
                    for d in fn.defs(a):
                        if d[1] == "assign" and d[2][2][0] == "agg" and isinstance(d[2][2][1], str) \
                                and d[2][2][1].startswith("closure:") and self.summaries.returns_source(d[2][2][1][8:]):
                            src = last + "(closure)"
            if src:
                self._new_root(dst, "%s line %s" % (src, c["ln"]), int_width(dty) or 64)
                return True
        if last in LEN_CALLS:
            return False
        if last in LOOKUP_CALLS and ("HashMap" in f or "BTreeMap" in f or "HashSet" in f):
            arg_locals = arg_locals[:1]
            s_roots = set(self.roots.get(arg_locals[0], set())) if arg_locals else set()
        # clamp: result bounded by the untrusted-free argument
        if last in CLAMP_CALLS and len(arg_locals) + sum(1 for a in c["a"] if op_const(a)) >= 2:
            consts = [a for a in c["a"] if op_const(a) is not None]
            clean_args = [a for a in arg_locals if not self.roots.get(a) and a not in self.buf]
            if consts or clean_args:
                if dst not in self.clean_bounded:
                    self.clean_bounded.add(dst)
                return False
        if any_buf:
            if is_bufish(dty) or (last in PASS_BUF_CALLS and not int_width(dty) and not has_int_only(dty)):
                if dst not in self.buf:
                    self.buf.add(dst)
                    changed = True
            if has_int(dty) and last not in LEN_CALLS and not is_bufish(dty):
                src = False
                if c.get("loc") and self.summaries is not None and self.summaries.fx.has(f):
                    bp = [i + 1 for i, a in enumerate(c["a"]) if op_local(a) in self.buf]
                    info = self.summaries.ret_info(f, bp)
                    src = info["tainted"]
                    if info["clean_fields"] and not self.tuple_clean.get(dst):
                        self.tuple_clean[dst] = set(info["clean_fields"])
                        changed = True
                elif not c.get("r", True):
                    src = True      # unresolved trait method fed with untrusted bytes
                if src and not self.site_new.get(self._cur_loc):
                    self._new_root(dst, "%s(buffer) line %s" % (last, c["ln"]), int_width(dty) or 64)
                    changed = True
        if s_roots:
            if c.get("loc") and self.summaries is not None:
                # crate-local callee: use the summary (does the return depend on these args?)
                dep = self.summaries.ret_depends(f)
                if dep is not None:
                    s_roots = set()
                    for i, a in enumerate(c["a"]):
                        l = op_local(a)
                        if l is not None and (i + 1) in dep:
                            s_roots |= self.roots.get(l, set())
            if s_roots - self.roots.get(dst, set()):
                self.roots[dst] |= s_roots
                changed = True
            if self._cur_loc is not None:
                self.site_roots[self._cur_loc] |= s_roots
        # tuple results: which fields are trusted positions (consumed-byte counts)?
        if last in ("branch", "unwrap", "expect", "map_err", "ok_or", "ok_or_else", "unwrap_or", "ok",
                    "from_residual", "unwrap_unchecked", "into") and arg_locals:
            if self.tuple_clean.get(arg_locals[0]) and not self.tuple_clean.get(dst):
                self.tuple_clean[dst] = set(self.tuple_clean[arg_locals[0]])
                changed = True
        return changed

    def _field_root(self, p, line):
        nf = [e for e in p[1:] if _named_field(e)]
        key = nf[-1][1:] if nf else "captured::" + "".join(str(e) for e in p[1:] if isinstance(e, str))
        if not hasattr(self, "_froots"):
            self._froots = {}
        if key not in self._froots:
            rid = len(self.root_desc)
            self.root_desc.append(("field %s" % key.rsplit("::", 2)[-2] + "." + key.rsplit("::", 1)[-1], 64))
            self._froots[key] = rid
        rid = self._froots[key]
        if self._cur_loc is not None:
            self.site_new[self._cur_loc].add(rid)
        return {rid}

    def _record_field_writes(self, dst, rv):
        """struct fields that receive untrusted data (type-based heap abstraction)"""
        sm = self.summaries
        if sm is None or not getattr(sm, "use_registry", True):
            return
        fn = self.fn

        def note(key, op):
            p = op_place(op)
            if not p:
                return
            l = p[0]
            named = any(_named_field(e) for e in p[1:])
            kind = self._field_kind(p) if named else None
            isbuf = (kind == "buf") or (not named and l in self.buf)
            isscal = (kind == "scalar") or (not named and bool(self.roots.get(l)) and l not in self.clean_bounded)
            if isbuf and key not in sm.reg_buf:
                sm.reg_buf.add(key)
                sm.reg_version += 1
            elif isscal and not isbuf and key not in sm.reg_scalar:
                sm.reg_scalar.add(key)
                sm.reg_version += 1
        if rv[0] == "agg" and isinstance(rv[1], str) and rv[1].startswith("adt:") and rv[3]:
            adt = rv[1][4:].rsplit("::", 1)[0]
            if adt.startswith("std::") or adt.startswith("core::") or adt.startswith("alloc::"):
                return
            # (pointer, length) views: a length that was handed to the allocation call which produced the
            # pointer stored next to it is consistent with that pointer by construction
            consistent = set()
            ptr_ops = [o for o in rv[2] if op_local(o) is not None and
                       re.search(r"NonNull<|\*mut |\*const ", fn.ty(op_local(o)))]
            if ptr_ops and self._cur_loc is not None:
                alloc_roots = set()
                for po in ptr_ops:
                    _, sites = fn.backslice([op_local(po)], max_nodes=200)
                    for loc2, kind2, pl2 in sites:
                        if kind2 == "call":
                            for a in pl2["a"]:
                                la = op_local(a)
                                if la is not None and scalar_like(fn.ty(la)):
                                    alloc_roots |= self.roots.get(la, set())
                for name, op in zip(rv[3], rv[2]):
                    l = op_local(op)
                    if l is not None and self.roots.get(l) and self.roots[l] <= alloc_roots:
                        consistent.add(name)
            for name, op in zip(rv[3], rv[2]):
                if name in consistent:
                    continue
                note(adt + "::" + name, op)
        else:
            flds = [e for e in dst[1:] if _named_field(e)]
            if flds and rv[0] in ("use", "cast", "bin"):
                for o in rv_operands(rv):
                    note(flds[-1][1:], o)

    def _tuple_field_clean(self, rv):
        """rvalue reads tuple field k of a local whose field k is a trusted position"""
        if rv[0] != "use":
            return False
        p = op_place(rv[1])
        if not p or len(p) < 2:
            return False
        last = p[-1]
        if not (isinstance(last, str) and re.match(r"^\.\d+$", last)):
            return False
        tc = self.tuple_clean.get(p[0])
        return bool(tc) and int(last[1:]) in tc

    def _tuple_pass(self, dst, rv):
        """moves of the (wrapped) tuple keep the trusted-field set"""
        if rv[0] != "use" or len(dst) != 1:
            return
        p = op_place(rv[1])
        if not p:
            return
        tc = self.tuple_clean.get(p[0])
        if not tc:
            return
        # only enum payload projections (downcast + variant field), no tuple field selection
        for e in p[1:]:
            if isinstance(e, str) and re.match(r"^\.\d+$", e):
                return
        if not self.tuple_clean.get(dst[0]):
            self.tuple_clean[dst[0]] = set(tc)

    def _propagate(self):
        fn = self.fn
        changed = True
        rounds = 0
        while changed and rounds < 40:
            changed = False
            rounds += 1
            for loc, st in fn.iter_locs():
                self._cur_loc = loc
                if st[0] == "a":
                    dst, rv = st[1], st[2]
                    d = dst[0]
                    k = rv[0]
                    if self._tuple_field_clean(rv):
                        continue
                    self._tuple_pass(dst, rv)
                    self._record_field_writes(dst, rv)
                    # destination through a pointer: taint what it points to as well
                    targets = [d]
                    if len(dst) > 1 and "*" in dst[1:]:
                        targets += list(fn.points_to(d))
                    srcs = []
                    for o in rv_operands(rv):
                        p = op_place(o)
                        if p:
                            srcs.append(p)
                    if k == "un" and rv[1] == "PtrMetadata":
                        continue
                    if k == "other" and "Len(" in str(rv[1]):
                        continue
                    new_roots = set()
                    from_buf = False
                    for p in srcs:
                        if any(_named_field(e) for e in p[1:]):
                            # a named struct field: its trust is decided per field (registry / seeds),
                            # not by the object it is read from
                            fk = self._field_kind(p)
                            if fk == "buf":
                                from_buf = True
                            elif fk == "scalar":
                                new_roots |= self._field_root(p, st[3])
                            continue
                        new_roots |= self.roots.get(p[0], set())
                        if p[0] in self.buf:
                            from_buf = True
                    # clamp against a trusted *variable* bound (x % n, x & mask_var): bounded by trusted state
                    if k == "bin" and rv[1] in ("BitAnd", "Rem"):
                        y = rv[3] if rv[1] == "Rem" else None
                        cands = [rv[3]] if rv[1] == "Rem" else [rv[2], rv[3]]
                        hit = False
                        for y in cands:
                            ly = op_local(y)
                            if ly is not None and not self.roots.get(ly) and ly not in self.buf \
                                    and op_const(y) is None:
                                hit = True
                        if hit:
                            for t in targets:
                                self.clean_bounded.add(t)
                            continue
                    if k == "bin" and rv[1] in CMP_OPS:
                        continue  # booleans are handled as guards, not as tainted data
                    if k == "disc":
                        continue
                    if from_buf and any(re.search(r"\(usize, ", fn.ty(p[0])) and ".0" in p[1:] and
                                        int_width(fn.ty(d)) == 64 for p in srcs):
                        from_buf = False     # Enumerate counter, not buffer content
                    if k == "agg" and isinstance(rv[1], str) and rv[1].startswith("adt:") and rv[3] \
                            and not rv[1].startswith("adt:std::") and not rv[1].startswith("adt:core::"):
                        continue
                    for t in targets:
                        tty = fn.ty(t)
                        if from_buf:
                            if is_bufish(tty) and not (k == "use" and int_width(tty)):
                                if t not in self.buf:
                                    self.buf.add(t)
                                    changed = True
                            elif not int_width(tty) and not re.match(r"^(\(|std::option::Option<|&)*[ui](8|16|32|64|size)\b", tty) \
                                    and tty not in ("bool", "()", "char", "f32", "f64"):
                                # a struct / option / reference taken out of untrusted content stays untrusted
                                if t not in self.buf:
                                    self.buf.add(t)
                                    changed = True
                            elif has_int(tty) or int_width(tty):
                                # byte (or integer) loaded from untrusted content: one root per load site
                                if not self.site_new.get(loc):
                                    self._new_root(t, "load@%d from %s" % (st[3], fn.local_name(srcs[0][0]) if srcs else "?"),
                                                   int_width(tty) or 8)
                                    changed = True
                        if new_roots - self.roots.get(t, set()):
                            self.roots[t] |= new_roots
                            changed = True
                        self.site_roots[loc] |= new_roots
                elif st[0] == "call":
                    c = st[1]
                    d = c["d"][0]
                    if self._call_effect(c, d):
                        changed = True
                    # &mut out-params filled by a callee that received untrusted data
                    f = c["f"]
        # locals that were clamped are not tainted for sink purposes
        return

    # ------------------------------------------------------------------
    def compute_bits(self):
        """upper bound (in bits) of every untrusted local, flow-insensitive with widening"""
        fn = self.fn
        bits = {}
        for l, rs in self.roots.items():
            if rs:
                tw = int_width(fn.ty(l)) or 64
                bits[l] = 0
        for l, rids in self.param_roots.items():
            bits[l] = max(self.root_desc[r][1] for r in rids)
        for loc, rids in self.site_new.items():
            st = fn.stmt_at(loc)
            d = st[1][0] if st[0] == "a" else (st[1]["d"][0] if st[0] == "call" else None)
            if d is not None and rids:
                bits[d] = max(bits.get(d, 0), max(self.root_desc[r][1] for r in rids))
        rootw = {}
        def tyw(l):
            return int_width(fn.ty(l)) or 64

        def opbits(o):
            c = op_const(o)
            if c is not None:
                v = c[0]
                return max(int(v).bit_length(), 1) if isinstance(v, int) and v >= 0 else 64
            p = op_place(o)
            if not p:
                return 64
            if len(p) == 1:
                l = p[0]
                if self.roots.get(l) and l not in self.clean_bounded:
                    return bits.get(l, tyw(l))
                return tyw(l) if not self.roots.get(l) else bits.get(l, tyw(l))
            return 64
        # initialise from root sites
        for loc, rids in self.site_roots.items():
            pass
        changed = True
        rounds = 0
        while changed and rounds < 12:
            changed = False
            rounds += 1
            for loc, st in fn.iter_locs():
                if st[0] == "a" and len(st[1]) == 1:
                    d = st[1][0]
                    if d not in bits:
                        continue
                    rv = st[2]
                    k = rv[0]
                    tw = tyw(d)
                    nb = None
                    if k == "use":
                        p = op_place(rv[1])
                        if p and len(p) > 1:
                            nb = tw      # load through a projection: width of the loaded type
                        else:
                            nb = min(opbits(rv[1]), tw)
                    elif k == "cast":
                        nb = min(opbits(rv[2]), tw)
                    elif k == "bin":
                        a, b = opbits(rv[2]), opbits(rv[3])
                        op = rv[1]
                        cb = op_const(rv[3])
                        if op in ("Add", "AddWithOverflow", "AddUnchecked", "Sub", "SubWithOverflow", "SubUnchecked"):
                            nb = max(a, b) + 1
                        elif op in ("Mul", "MulWithOverflow", "MulUnchecked"):
                            nb = a + b
                        elif op in ("BitAnd",):
                            nb = min(a, b)
                        elif op in ("BitOr", "BitXor"):
                            nb = max(a, b)
                        elif op in ("Shl", "ShlUnchecked"):
                            nb = a + (cb[0] if cb and isinstance(cb[0], int) else 64)
                        elif op in ("Shr", "ShrUnchecked"):
                            nb = max(a - (cb[0] if cb and isinstance(cb[0], int) else 0), 1)
                        elif op in ("Rem",):
                            nb = min(a, b)
                        elif op in ("Div",):
                            nb = a
                        else:
                            nb = tw
                        nb = min(nb, tw)
                    elif k == "agg":
                        nb = max([opbits(o) for o in rv[2]] or [tw])
                    else:
                        nb = tw
                    if rounds > 6:
                        nb = tw if nb > bits[d] else nb   # widen
                    if nb > bits[d]:
                        bits[d] = nb
                        changed = True
                elif st[0] == "a" and len(st[1]) > 1:
                    d = st[1][0]
                    if d in bits and bits[d] < tyw(d):
                        bits[d] = tyw(d)
                        changed = True
                elif st[0] == "call":
                    c = st[1]
                    d = c["d"][0]
                    if d not in bits:
                        continue
                    tw = tyw(d)
                    m = re.search(r"<impl ([ui](?:8|16|32|64|128|size))>::from_", c["f"])
                    nb = INT_TYPES[m.group(1)] if m else tw
                    last = c["f"].rsplit("::", 1)[-1]
                    if last in ("min",) and len(c["a"]) == 2:
                        nb = min(opbits(c["a"][0]), opbits(c["a"][1]))
                    elif last in ("clone", "from", "into", "try_from", "try_into", "unwrap", "expect", "branch",
                                  "copied", "cloned", "unwrap_or", "unwrap_or_default", "ok", "map_err",
                                  "from_residual", "saturating_sub", "wrapping_sub", "abs_diff") and c["a"]:
                        nb = min(opbits(c["a"][0]), tw if int_width(fn.ty(d)) else 64)
                    if nb > bits[d]:
                        bits[d] = nb
                        changed = True
        self.bits = bits
        return bits

    def bits_of(self, op):
        if not hasattr(self, "bits"):
            self.compute_bits()
        c = op_const(op)
        if c is not None:
            return 0
        p = op_place(op)
        if not p:
            return 64
        if len(p) == 1:
            return self.bits.get(p[0], int_width(self.fn.ty(p[0])) or 64)
        return 64

    def tainted(self, l):
        return bool(self.roots.get(l)) and l not in self.clean_bounded

    def op_roots(self, op):
        p = op_place(op)
        if not p:
            return set()
        r = set()
        for x in place_locals(p):
            if x not in self.clean_bounded:
                r |= self.roots.get(x, set())
        return r

    def roots_at(self, loc, op, depth=0):
        """roots of an operand, following only the definitions that reach loc"""
        p = op_place(op)
        if not p:
            return set()
        return self.local_roots_at(loc, p[0], depth)

    def local_roots_at(self, loc, x, depth=0):
        fn = self.fn
        ds = fn.defs(x)
        r = set()
        if 1 <= x <= fn.nargs:
            r |= self.param_roots.get(x, set())
        if not ds:
            return r | self.roots.get(x, set())
        if depth > 40:
            return r | self.roots.get(x, set())
        rd = ds if len(ds) == 1 else fn.reaching_defs(loc, x)
        for d in rd:
            r |= self.def_roots(x, d, depth + 1)
        return r

    def def_roots(self, x, d, depth):
        fn = self.fn
        loc, kind, pl = d
        key = (loc, kind, x)
        if key in self._dmemo:
            return self._dmemo[key]
        if key in self._dprog:
            # loop-carried dependency: contributes nothing beyond the other reaching definitions
            # (least fixpoint); results computed under this assumption are not memoised
            self._cyc = getattr(self, "_cyc", 0) + 1
            return set()
        self._dprog.add(key)
        cyc0 = getattr(self, "_cyc", 0)
        r = set(self.site_new.get(loc, ()))
        try:
            if kind == "assign":
                dst, rv = pl[1], pl[2]
                k = rv[0]
                if self._tuple_field_clean(rv):
                    r = set()
                elif (k == "bin" and rv[1] in CMP_OPS) or k == "disc" or (k == "un" and rv[1] == "PtrMetadata"):
                    r = set()
                elif k == "bin" and rv[1] in ("BitAnd", "Rem") and self._trusted_clamp(loc, rv, depth):
                    r = set()
                else:
                    for o in rv_operands(rv):
                        p = op_place(o)
                        if p:
                            if any(_named_field(e) for e in p[1:]):
                                continue      # named field: covered by site_new (registry / seeds)
                            r |= self.local_roots_at(loc, p[0], depth)
                    if len(dst) > 1:
                        r |= self.roots.get(x, set())
            elif kind == "call":
                c = pl
                last = c["f"].rsplit("::", 1)[-1]
                args = [op_local(a) for a in c["a"]]
                any_buf = any(a in self.buf for a in args if a is not None)
                if last in LEN_CALLS:
                    r = set(self.site_new.get(loc, ()))     # nothing flows through; a getter of an untrusted field is a source
                elif last in LOOKUP_CALLS and ("HashMap" in c["f"] or "BTreeMap" in c["f"] or "HashSet" in c["f"]):
                    # the value stored in a map does not derive from the key used to find it
                    a0 = args[0] if args else None
                    r = self.local_roots_at(loc, a0, depth) if a0 is not None else set()
                elif last in CLAMP_CALLS and self._clamp_clean(loc, c, depth):
                    r = set()
                elif last in ("saturating_sub", "checked_sub") and len(c["a"]) == 2 and \
                        op_local(c["a"][0]) is not None and not self.local_roots_at(loc, op_local(c["a"][0]), depth):
                    r = set()
                else:
                    dep = None
                    if c.get("loc") and self.summaries is not None:
                        dep = self.summaries.ret_depends(c["f"])
                    for i, a in enumerate(args):
                        if a is None or (dep is not None and (i + 1) not in dep):
                            continue
                        ra = self.local_roots_at(loc, a, depth)
                        if ra and c.get("loc") and self.summaries is not None and scalar_like(fn.ty(a)) \
                                and not self.summaries.scalar_passes(c["f"], i + 1):
                            continue     # the callee clamps / validates this argument before returning it
                        r |= ra
                    if c["d"][0] != x:
                        # x was written through a &mut argument
                        r |= self.roots.get(x, set())
            else:
                r |= self.roots.get(x, set())
        finally:
            self._dprog.discard(key)
        if getattr(self, "_cyc", 0) == cyc0 or not self._dprog:
            self._dmemo[key] = r
        return r

    def _trusted_clamp(self, loc, rv, depth):
        cands = [rv[3]] if rv[1] == "Rem" else [rv[2], rv[3]]
        for y in cands:
            ly = op_local(y)
            if ly is not None and op_const(y) is None and ly not in self.buf \
                    and not self.local_roots_at(loc, ly, depth):
                return True
        return False

    def _clamp_clean(self, loc, c, depth):
        for a in c["a"]:
            if op_const(a) is not None:
                return True
            l = op_local(a)
            if l is not None and l not in self.buf and not self.local_roots_at(loc, l, depth):
                return True
        return False

    def width_of(self, roots):
        return max((self.root_desc[r][1] for r in roots), default=0)


def _op_ty(fn, op):
    c = op_const(op)
    if c is not None:
        return c[1]
    p = op_place(op)
    if p and len(p) == 1:
        return fn.ty(p[0])
    return "usize" if p else None


def scalar_like(ty):
    """integers and small value aggregates of integers (not structs / references to structs)"""
    t = ty.replace("&mut ", "").replace("&", "").strip()
    if int_width(t):
        return True
    return bool(re.match(r"^(std::option::Option<|std::ops::Range(Inclusive|From|To)?<|\()\s*\(?([ui](8|16|32|64|size)[,\s)>]*)+$", t))


def has_int_only(ty):
    return bool(re.match(r"^(std::option::Option<|std::result::Result<)?\(?[ui](8|16|32|64|size)", ty))


# ---------------------------------------------------------------------- guards
class Guards:
    """deciding comparisons of a function.

    item = (block, roots, large_succs, desc): `roots` are the untrusted roots of the compared
    value; `large_succs` are the successors taken when the untrusted side is LARGE (fails an
    upper bound) - None when the direction is unknown (checking helper), in which case any
    deciding successor is accepted."""

    def __init__(self, fn, ft):
        self.fn = fn
        self.ft = ft
        self.items = []
        self._collect()

    # a boolean local is described by a list of atoms:
    #   (roots_untrusted_side, op_as_seen_from_untrusted_side or None, negated, desc)
    def _atoms(self, l, neg=False, depth=0):
        fn, ft = self.fn, self.ft
        out = []
        if depth > 6:
            return out
        for loc, kind, pl in fn.defs(l):
            if kind == "assign" and len(pl[1]) == 1:
                rv = pl[2]
                if rv[0] == "bin" and rv[1] in CMP_OPS:
                    sat = self._satsub_atom(loc, rv, neg, pl[3])
                    if sat:
                        out += sat
                        continue
                    ra, rb = ft.roots_at(loc, rv[2]), ft.roots_at(loc, rv[3])
                    ca = op_const(rv[2]) is not None or not ra
                    cb = op_const(rv[3]) is not None or not rb
                    flip = {"Lt": "Gt", "Le": "Ge", "Gt": "Lt", "Ge": "Le", "Eq": "Eq", "Ne": "Ne"}[rv[1]]
                    if ra and cb:
                        out.append((ra, rv[1], neg, "%s@%s" % (rv[1], pl[3]), op_local(rv[2])))
                    if rb and ca:
                        out.append((rb, flip, neg, "%s@%s" % (rv[1], pl[3]), op_local(rv[3])))
                    if ra and rb and not (ra & rb) and rv[1] in ("Lt", "Le", "Gt", "Ge"):
                        # relational check between two untrusted values (index < declared count):
                        # accepted only for index-like sinks, marked with a trailing "~"
                        out.append((ra, rv[1], neg, "%s@%s~" % (rv[1], pl[3]), op_local(rv[2])))
                        out.append((rb, flip, neg, "%s@%s~" % (rv[1], pl[3]), op_local(rv[3])))
                elif rv[0] == "use" and op_place(rv[1]) and len(op_place(rv[1])) == 1:
                    out += self._atoms(op_local(rv[1]), neg, depth + 1)
                elif rv[0] == "un" and rv[1] == "Not":
                    ll = op_local(rv[2])
                    if ll is not None:
                        out += self._atoms(ll, not neg, depth + 1)
                elif rv[0] == "disc":
                    base = rv[1][0]
                    for loc2, kind2, pl2 in fn.defs(base):
                        if kind2 == "call":
                            out += self._call_atoms(pl2, loc2)
                        elif kind2 == "assign" and pl2[2][0] == "use" and op_local(pl2[2][1]) is not None:
                            for loc3, kind3, pl3 in fn.defs(op_local(pl2[2][1])):
                                if kind3 == "call":
                                    out += self._call_atoms(pl3, loc3)
            elif kind == "call":
                out += self._call_atoms(pl, loc, neg)
        return out

    def _satsub_atom(self, loc, rv, neg, line):
        """`trusted.saturating_sub(x) > 0` (or != 0 / == 0) is the comparison `x < trusted`"""
        fn, ft = self.fn, self.ft
        for y, z in ((rv[2], rv[3]), (rv[3], rv[2])):
            cz = op_const(z)
            ly = op_local(y)
            if cz is None or cz[0] != 0 or ly is None:
                continue
            for _ in range(4):   # look through plain copies
                dsy = fn.defs(ly)
                if len(dsy) == 1 and dsy[0][1] == "assign" and dsy[0][2][2][0] == "use" \
                        and op_place(dsy[0][2][2][1]) and len(op_place(dsy[0][2][2][1])) == 1:
                    ly = op_local(dsy[0][2][2][1])
                else:
                    break
            for loc2, kind2, pl2 in fn.defs(ly):
                if kind2 == "call" and pl2["f"].endswith("::saturating_sub") and len(pl2["a"]) == 2:
                    ra = ft.roots_at(loc2, pl2["a"][0])
                    rb = ft.roots_at(loc2, pl2["a"][1])
                    if rb and not ra:
                        op = rv[1]
                        if y is rv[3]:
                            op = {"Lt": "Gt", "Le": "Ge", "Gt": "Lt", "Ge": "Le", "Eq": "Eq", "Ne": "Ne"}[op]
                        # y > 0 / y != 0 / y >= 1  => x < trusted ; y == 0 / y <= 0 => x >= trusted
                        if op in ("Gt", "Ne", "Ge"):
                            return [(rb, "Lt", neg, "saturating_sub>0@%s" % line, op_local(pl2["a"][1]))]
                        if op in ("Eq", "Le", "Lt"):
                            return [(rb, "Ge", neg, "saturating_sub==0@%s" % line, op_local(pl2["a"][1]))]
        return None

    def _call_atoms(self, c, loc, neg=False, depth=0):
        ft = self.ft
        f = c["f"]
        last = f.rsplit("::", 1)[-1]
        rs = [ft.roots_at(loc, a) for a in c["a"]]
        allr = set().union(*rs) if rs else set()
        wrappers = ("branch", "ok_or", "ok_or_else", "map_err", "ok", "is_some", "is_none", "is_ok", "is_err",
                    "as_ref", "copied", "cloned", "map", "and_then")
        if last in ("lt", "le", "gt", "ge", "eq", "ne") and len(c["a"]) == 2:
            op = {"lt": "Lt", "le": "Le", "gt": "Gt", "ge": "Ge", "eq": "Eq", "ne": "Ne"}[last]
            out = []
            if rs[0] and (op_const(c["a"][1]) is not None or not rs[1]):
                out.append((rs[0], op, neg, "%s()@%s" % (last, c["ln"]), op_local(c["a"][0])))
            if rs[1] and (op_const(c["a"][0]) is not None or not rs[0]):
                flip = {"Lt": "Gt", "Le": "Ge", "Gt": "Lt", "Ge": "Le", "Eq": "Eq", "Ne": "Ne"}[op]
                out.append((rs[1], flip, neg, "%s()@%s" % (last, c["ln"]), op_local(c["a"][1])))
            return out
        if last in wrappers and c["a"] and depth < 6:
            l = op_local(c["a"][0])
            out = []
            if l is not None:
                for loc2, kind2, pl2 in self.fn.defs(l):
                    if kind2 == "call":
                        out += self._call_atoms(pl2, loc2, neg, depth + 1)
            if out or not allr:
                return out
        if not allr:
            return []
        if CHECK_CALLS.search(f) or last.startswith("is_") or last.startswith("has_") or last.startswith("can_") \
                or last in ("contains", "validate", "check_bounds", "ensure", "verify"):
            return [(allr, None, neg, "%s()@%s" % (last, c["ln"]), None)]
        if c.get("loc") and ft.summaries is not None and ft.summaries.is_validator(f):
            return [(allr, None, neg, "validator %s@%s" % (last, c["ln"]), None)]
        return []

    def _collect(self):
        fn = self.fn
        for b in fn.blocks():
            t = fn.term(b)
            if t[0] != "sw":
                continue
            l = op_local(t[1])
            if l is None:
                continue
            atoms = self._atoms(l)
            if not atoms:
                continue
            ev = fn.switch_edge_values(b)
            explicit = [int(v) for v, _ in t[2]]
            true_t = false_t = None
            for tgt, vals in ev.items():
                if 1 in vals or ("otherwise" in vals and 0 in explicit and 1 not in explicit):
                    true_t = tgt
                if 0 in vals or ("otherwise" in vals and 1 in explicit and 0 not in explicit):
                    false_t = tgt
            for roots, op, neg, desc, cl in atoms:
                large = None
                if op is not None and true_t is not None and false_t is not None and true_t != false_t:
                    # successor taken when the untrusted value is large / different from the bound
                    tt, ff = (false_t, true_t) if neg else (true_t, false_t)
                    if op in ("Lt", "Le", "Eq"):
                        large = [ff]
                    else:
                        large = [tt]
                self.items.append((b, roots, large, desc, op, cl))

    def protecting(self, sink_block, roots, sink_local=None, relational=False):
        """guards that dominate the sink, share a root with the operand and whose 'large' edge
        (or, for checking helpers, some edge) cannot reach the sink"""
        fn = self.fn
        out = []
        anc = None
        for b, groots, large, desc, op, cl in self.items:
            if not (groots & roots):
                continue
            if desc.endswith("~") and not relational:
                continue
            if b == sink_block or not fn.dominates(b, sink_block):
                continue
            if op in ("Eq", "Ne"):
                # an (in)equality only bounds values that are computed from the compared one
                if sink_local is None or cl is None:
                    continue
                if anc is None:
                    anc = fn.backslice([sink_local])[0]
                if cl not in anc:
                    continue
            elif op is not None:
                if not (roots <= groots):
                    continue
            succs = large if large is not None else fn.succ(b)
            if large is not None:
                ok = all(sink_block not in fn.reachable_from([s], avoid=[b]) for s in succs)
            else:
                ok = any(sink_block not in fn.reachable_from([s], avoid=[b]) for s in succs)
            if ok:
                out.append((b, desc))
        return out


# ---------------------------------------------------------------------- sinks
def _agg_operands(fn, l):
    """operands of the aggregate that defines local l (e.g. a Range), else None"""
    ds = [d for d in fn.defs(l) if d[1] == "assign" and len(d[2][1]) == 1]
    if len(ds) == 1 and ds[0][2][2][0] == "agg":
        return ds[0][2][2][2]
    return None


def sink_sites(fn):
    """yield (kind, block, operand, description, line)"""
    for b in fn.blocks():
        t = fn.term(b)
        if t[0] == "assert" and t[3] == "BoundsCheck":
            yield ("index", b, t[4][1], "index", t[6], t[4][0])
        elif t[0] == "call":
            c = t[1]
            f = c["f"]
            for rx, ai in ALLOC_SINKS:
                if rx.search(f) and len(c["a"]) > ai:
                    yield ("alloc", b, c["a"][ai], f.rsplit("::", 1)[-1], c["ln"], None)
                    break
            for rx, ai, nm in UNSAFE_SINKS:
                if rx.search(f) and len(c["a"]) > ai:
                    yield ("unsafe", b, c["a"][ai], nm, c["ln"], None)
                    break
            if SLICE_INDEX_RE.search(f) and len(c["a"]) >= 2:
                l = op_local(c["a"][1])
                ops = _agg_operands(fn, l) if l is not None else None
                if ops is not None:
                    for o in ops:
                        yield ("slice", b, o, "slice-range", c["ln"], None)
                else:
                    yield ("slice", b, c["a"][1], "slice-index", c["ln"], None)
            elif SPLIT_RE.search(f) and len(c["a"]) >= 2:
                yield ("slice", b, c["a"][1], f.rsplit("::", 1)[-1], c["ln"], None)


def check_sinks(ctx, fn, ft, rule_prefix, kinds=("alloc", "index", "slice", "unsafe"), report=True):
    g = None
    n = 0
    for kind, b, op, desc, line, lenop in sink_sites(fn):
        if kind not in kinds:
            continue
        roots = ft.roots_at((b, len(fn.stmts(b))), op)
        if not roots:
            continue
        n += 1
        if g is None:
            g = Guards(fn, ft)
        rule = rule_prefix + {"alloc": "R-ALLOC", "index": "R-GUARD.index", "slice": "R-GUARD.slice",
                              "unsafe": "R-GUARD.unsafe"}[kind]
        width = min(ft.width_of(roots), ft.bits_of(op)) if op_place(op) and len(op_place(op)) == 1 else ft.width_of(roots)
        why = None
        if kind == "alloc" and width <= 16:
            why = "source width %d bits" % width
        if kind == "index" and lenop is not None:
            c = op_const(lenop)
            if c is not None and isinstance(c[0], int) and width < 64 and (1 << width) <= c[0]:
                why = "index type-bounded (%d bits) for array of %d" % (width, c[0])
        prot = g.protecting(b, roots, op_local(op), relational=kind in ("index", "slice")) if why is None else []
        ok = bool(why) or bool(prot)
        l = op_local(op)
        nm = fn.local_name(l) if l is not None else "?"
        ctx.obligation(rule, fn.id, "%s(%s)" % (desc, nm), ok,
                       sample={"fn": fn.id, "sink": desc, "operand": nm, "line": line,
                               "untrusted_sources": [ft.root_desc[r][0] for r in sorted(roots)][:4],
                               "discharged_by": why or [d for _, d in prot][:3]})
        if not ok and report:
            srcs = ", ".join(ft.root_desc[r][0] for r in sorted(roots)[:3])
            what = {"alloc": "sizes an allocation", "index": "indexes (panics when out of range)",
                    "slice": "bounds a slice operation (panics when out of range)",
                    "unsafe": "feeds an unchecked memory access"}[kind]
            kinds_ = sorted({re.sub(r"( line \d+|@\d+)", "", ft.root_desc[r][0]) for r in roots})
            ctx.violation(rule, fn.id, "%s(%s) <- %s" % (desc, nm if not nm.startswith("_") else "tmp", kinds_[0]),
                          "untrusted value %s (from %s) %s with no dominating check against a trusted bound"
                          % (nm, srcs, what), fn.file, line)
    return n


# ---------------------------------------------------------------------- interprocedural driver
class Summaries:
    def __init__(self, fx):
        self.fx = fx
        self._dep = {}
        self._val = {}
        self._ctf = {}
        self._sp = {}
        self._rs = {}
        self.cfg_buf_fields = ()      # explicit untrusted-field patterns of the owning Closure (for returns_source)
        self.cfg_scalar_fields = ()
        self.reg_buf = set()      # 'path::Adt::field' whose content is untrusted bytes / parsed data
        self.reg_scalar = set()   # 'path::Adt::field' holding an untrusted integer
        self.reg_version = 0

    def fn(self, fid):
        rec = self.fx.raw(fid)
        return Fn(rec) if rec else None

    def ret_depends(self, fid):
        if fid in self._dep:
            return self._dep[fid]
        self._dep[fid] = None
        fn = self.fn(fid)
        if fn is None:
            return None
        locs, _ = fn.backslice([0])
        dep = {l for l in locs if 1 <= l <= fn.nargs}
        self._dep[fid] = dep
        return dep

    def ret_info(self, fid, buf_params):
        """analyse callee with the given BUF parameters: is its return value untrusted, and which
        tuple fields of the (Ok-wrapped) result are trusted (no untrusted root, or validated by a
        dominating guard inside the callee: cursor positions / consumed-byte counts)"""
        key = (fid, tuple(sorted(buf_params)))
        if key in self._ctf:
            return self._ctf[key]
        self._ctf[key] = {"tainted": True, "clean_fields": set()}      # recursion: conservative
        fn = self.fn(fid)
        if fn is None:
            return self._ctf[key]
        ft = FnTaint(fn, buf_params, (), (), (), self, None)
        g = None
        # does anything untrusted reach the return value?
        rr = ft.local_roots_at((max(fn.exits() or [0]), 0), 0) if fn.exits() else ft.roots.get(0, set())
        rr = rr | ft.roots.get(0, set())
        tainted = bool(rr)
        clean = None
        ntuples = 0
        if "(" in fn.ty(0):
            for loc, st in fn.iter_locs():
                if st[0] == "a" and st[2][0] == "agg" and st[2][1] == "tuple" and len(st[1]) == 1:
                    fw = fn.forward_locals([st[1][0]])
                    if 0 not in fw:
                        continue
                    ntuples += 1
                    cf = set()
                    for i, o in enumerate(st[2][2]):
                        if int_width(_op_ty(fn, o) or "") is None:
                            continue
                        r = ft.roots_at(loc, o) if op_const(o) is None else set()
                        if not r:
                            cf.add(i)
                        else:
                            if g is None:
                                g = Guards(fn, ft)
                            if g.protecting(loc[0], r, op_local(o)):
                                cf.add(i)
                    clean = cf if clean is None else (clean & cf)
        res = {"tainted": tainted, "clean_fields": clean if (clean and ntuples) else set()}
        self._ctf[key] = res
        return res

    def returns_source(self, fid):
        """does the callee (a getter, or a closure handed to a combinator) return an integer read from one of the
        explicitly configured untrusted fields, whatever its arguments are?"""
        if not (self.cfg_scalar_fields or self.cfg_buf_fields):
            return False
        if fid in self._rs:
            return self._rs[fid]
        self._rs[fid] = False
        fn = self.fn(fid)
        if fn is None or not has_int(fn.ty(0)):
            return False
        # only the explicitly configured fields count here: the inferred registry is too coarse to turn every
        # getter of a registered field into a fresh source
        rb, rs = self.reg_buf, self.reg_scalar
        self.reg_buf, self.reg_scalar = set(), set()
        try:
            ft = FnTaint(fn, (), (), self.cfg_buf_fields, self.cfg_scalar_fields, self, None)
        finally:
            self.reg_buf, self.reg_scalar = rb, rs
        res = bool(ft.roots.get(0))
        for e in fn.exits():
            if res:
                break
            if ft.local_roots_at((e, len(fn.stmts(e))), 0):
                res = True
        self._rs[fid] = res
        return res

    def scalar_passes(self, fid, param):
        """does an untrusted integer in `param` reach the callee's return value unclamped?"""
        key = (fid, param)
        if key in self._sp:
            return self._sp[key]
        self._sp[key] = True
        fn = self.fn(fid)
        if fn is None or param > fn.nargs:
            return True
        ft = FnTaint(fn, (), (param,), (), (), self, None)
        res = False
        for e in fn.exits():
            if ft.local_roots_at((e, len(fn.stmts(e))), 0):
                res = True
        self._sp[key] = res
        return res

    def is_validator(self, fid):
        if fid in self._val:
            return self._val[fid]
        self._val[fid] = False
        fn = self.fn(fid)
        if fn is None:
            return False
        rt = fn.ty(0)
        if not ("Result<" in rt or "Option<" in rt or rt == "bool"):
            return False
        for b in fn.blocks():
            t = fn.term(b)
            if t[0] == "sw":
                l = op_local(t[1])
                if l is None:
                    continue
                locs, _ = fn.backslice([l])
                if any(1 <= x <= fn.nargs and int_width(fn.ty(x)) for x in locs):
                    self._val[fid] = True
                    return True
        return False


class Closure:
    """analyses a set of entry functions and everything they pass untrusted data to"""

    def __init__(self, fx, buf_fields=(), scalar_fields=(), extra_sources=None, scope_files=None, max_fns=3000,
                 use_registry=True):
        self.fx = fx
        self.summ = Summaries(fx)
        self.summ.use_registry = use_registry
        self.summ.cfg_buf_fields = tuple(buf_fields)
        self.summ.cfg_scalar_fields = tuple(scalar_fields)
        self.buf_fields = buf_fields
        self.scalar_fields = scalar_fields
        self.extra_sources = extra_sources
        self.scope_files = scope_files
        self.state = {}     # fid -> (set buf params, set scalar params)
        self.results = {}   # fid -> (Fn, FnTaint)
        self.max_fns = max_fns

    def seed_entry(self, fid, buf_params=None, scalar_params=()):
        rec = self.fx.raw(fid)
        if rec is None:
            return False
        fn = Fn(rec)
        if buf_params is None:
            buf_params = [i for i in range(1, fn.nargs + 1) if is_buf_type(fn.ty(i))]
        self._merge(fid, set(buf_params), set(scalar_params))
        return True

    def _merge(self, fid, bufs, scal):
        cur = self.state.get(fid)
        if cur is None:
            self.state[fid] = (set(bufs), set(scal))
            self.queue.append(fid)
            return
        if bufs - cur[0] or scal - cur[1]:
            cur[0].update(bufs)
            cur[1].update(scal)
            self.queue.append(fid)

    queue = None
    _ov = None

    def _overrides(self, callee):
        """ids of impl methods that override the trait method `path::Trait::name` (class-hierarchy analysis)"""
        if self._ov is None:
            self._ov = {}
            for imp in self.fx.impls:
                tr = imp.get("trait")
                if not tr:
                    continue
                for it in imp["items"]:
                    self._ov.setdefault(tr + "::" + it.rsplit("::", 1)[-1], []).append(it)
        return [o for o in self._ov.get(callee, ()) if o != callee]

    def run(self):
        for _ in range(6):
            v0 = self.summ.reg_version
            self._run_once()
            if self.summ.reg_version == v0:
                break
            # registry grew: summaries and results computed before may be stale
            self.summ._ctf.clear()
            for fid in list(self.state):
                self.queue.append(fid)
        return self.results

    def _run_once(self):
        fx = self.fx
        n = 0
        while self.queue and n < self.max_fns * 3:
            fid = self.queue.popleft()
            n += 1
            rec = fx.raw(fid)
            if rec is None:
                continue
            if self.scope_files is not None and rec["file"] not in self.scope_files:
                continue
            fn = Fn(rec)
            bufs, scal = self.state[fid]
            ft = FnTaint(fn, bufs, scal, self.buf_fields, self.scalar_fields, self.summ, self.extra_sources)
            self.results[fid] = (fn, ft)
            g = None
            for b, c in fn.calls():
                callee = c["f"]
                if not c["loc"] or not fx.has(callee):
                    continue
                cb, cs = set(), set()
                for i, a in enumerate(c["a"]):
                    l = op_local(a)
                    if l is None:
                        continue
                    if l in ft.buf:
                        cb.add(i + 1)
                    elif ft.tainted(l) and scalar_like(fn.ty(l)):
                        r = ft.roots_at((b, len(fn.stmts(b))), a)
                        if not r:
                            continue
                        if g is None:
                            g = Guards(fn, ft)
                        if g.protecting(b, r, l):
                            continue     # validated by the caller before the call
                        cs.add(i + 1)
                if cb or cs:
                    self._merge(callee, cb, cs)
                    # a call of a trait's provided method on a generic / dyn receiver may run any override of it:
                    # hand the same untrusted arguments to every impl of that trait in the crate that defines the method
                    for ov in self._overrides(callee):
                        self._merge(ov, cb, cs)
            # closures built here capture untrusted values: seed them through their env fields
            for loc, st in fn.iter_locs():
                if st[0] == "a" and st[2][0] == "agg" and isinstance(st[2][1], str) and st[2][1].startswith("closure:"):
                    cid = st[2][1][8:]
                    if not fx.has(cid):
                        continue
                    eb, es = set(), set()
                    for i, o in enumerate(st[2][2]):
                        l = op_local(o)
                        if l is None:
                            continue
                        if l in ft.buf or any(t in ft.buf for t in fn.points_to(l)):
                            eb.add(-(i + 1))
                        elif ft.tainted(l) or any(ft.tainted(t) for t in fn.points_to(l)):
                            es.add(-(i + 1))
                    if eb or es:
                        self._merge(cid, eb, es)
        return self.results


def new_closure(*a, **k):
    c = Closure(*a, **k)
    c.queue = deque()
    return c


# ---------------------------------------------------------------------- panics on untrusted paths
INFALLIBLE_SRC = re.compile(r"::try_into$|::try_from$")


def check_panics(ctx, fn, ft, rule="R-PANIC", report=True):
    """(a) unwrap/expect of an Option/Result whose value derives from untrusted scalars or from a
    fallible operation on untrusted bytes; (b) explicit panics in blocks that a branch on untrusted
    data decides. Accepted: try_into().unwrap() of a slice whose range has constant length."""
    n = 0
    g = None
    for b, c in fn.calls():
        f = c["f"]
        if UNWRAP_RE.search(f) and c["a"] and not c["x"]:
            l = op_local(c["a"][0])
            if l is None:
                continue
            loc = (b, len(fn.stmts(b)))
            roots = ft.local_roots_at(loc, l)
            from_buf = l in ft.buf
            if not roots and not from_buf:
                continue
            # what produced the Option/Result?
            prod = None
            for d in fn.defs(l):
                if d[1] == "call":
                    prod = d[2]["f"]
            if prod and INFALLIBLE_SRC.search(prod) and from_buf and not roots:
                # slice -> array conversion: fails only on a length mismatch; accept when the slice was
                # cut with a constant-length range (checked by the slice sink rule) - shape check only
                ctx.obligation(rule, fn.id, "try_into.unwrap", True, nontrivial=False)
                continue
            if not roots:
                continue
            if g is None:
                g = Guards(fn, ft)
            prot = g.protecting(b, roots, l)
            ok = bool(prot)
            n += 1
            ctx.obligation(rule, fn.id, "unwrap(%s)" % (prod or "?").rsplit("::", 1)[-1], ok,
                           sample={"fn": fn.id, "unwrap_of": prod, "line": c["ln"],
                                   "untrusted_sources": [ft.root_desc[r][0] for r in sorted(roots)][:3],
                                   "discharged_by": [d for _, d in prot][:2]})
            if not ok and report:
                ctx.violation(rule, fn.id, "unwrap of %s" % (prod or "value").rsplit("::", 1)[-1],
                              "unwrap/expect on a value computed from untrusted input (%s) with no dominating check: "
                              "malformed bytes panic instead of returning Err"
                              % ", ".join(ft.root_desc[r][0] for r in sorted(roots)[:2]), fn.file, c["ln"])
        elif PANIC_RE.search(f):
            # explicit panic: is the block control-dependent on an untrusted branch?
            if g is None:
                g = Guards(fn, ft)
            deciders = []
            for gb, groots, large, desc, op, cl in g.items:
                if fn.dominates(gb, b) and gb != b:
                    # the panic block is reached only through one side of the guard
                    sides = [s for s in fn.succ(gb) if b in fn.reachable_from([s], avoid=[gb])]
                    if len(sides) < len(fn.succ(gb)):
                        deciders.append(desc)
            if not deciders:
                continue
            n += 1
            ctx.obligation(rule, fn.id, "panic", False,
                           sample={"fn": fn.id, "panic": f.rsplit("::", 1)[-1], "line": c["ln"], "decided_by": deciders[:3]})
            if report:
                ctx.violation(rule, fn.id, "explicit panic after %s" % deciders[0].split("@")[0],
                              "a branch on untrusted input (%s) leads to %s: malformed bytes panic instead of "
                              "returning Err" % (deciders[0], f.rsplit("::", 1)[-1]), fn.file, c["ln"])
    return n


# ---------------------------------------------------------------------- R-ARITH
ARITH_OPS = ("Add", "AddWithOverflow", "AddUnchecked", "Mul", "MulWithOverflow", "MulUnchecked", "Shl", "ShlUnchecked")


def _callee_arith_on_param(fx, fid, pidx, ops, depth=0):
    """line of an unchecked `ops` operation in crate-local `fid` whose operand derives from parameter pidx and whose
    result reaches the return value (looked up one level further through crate-local callees)"""
    rec = fx.raw(fid) if fx is not None and fx.has(fid) else None
    if rec is None:
        return None
    cf = Fn(rec)
    locs, sites = cf.backslice([0], max_nodes=300)
    fw = cf.forward_locals([pidx])
    for loc, kind, pl in sites:
        if kind == "assign" and pl[2][0] == "bin" and pl[2][1] in ops:
            if any(op_local(o) in fw for o in (pl[2][2], pl[2][3])):
                return pl[3]
        if kind == "call" and depth < 1 and pl.get("loc"):
            for i, a in enumerate(pl["a"]):
                if op_local(a) in fw:
                    r = _callee_arith_on_param(fx, pl["f"], i + 1, ops, depth + 1)
                    if r is not None:
                        return r
    return None


def check_arith(ctx, fn, ft, rule="R-ARITH", report=True, ops=ARITH_OPS, fx=None):
    """a guard whose untrusted side is computed with wrapping/panicking arithmetic on a full-width
    untrusted operand does not refuse huge values: it wraps (release) or panics (debug). With `fx`, a compared
    value returned by a crate-local helper that applies the arithmetic to its parameter counts as well."""
    g = Guards(fn, ft)
    n = 0
    seen = set()
    for b, groots, large, desc, op, cl in g.items:
        if cl is None or op in ("Eq", "Ne") or op is None:
            continue
        # walk the definition chain of the compared value
        work = [cl]
        visited = set()
        while work:
            l = work.pop()
            if l in visited or len(visited) > 40:
                continue
            visited.add(l)
            for loc, kind, pl in fn.defs(l):
                if kind == "call" and fx is not None and pl.get("loc") and pl["d"] == [l]:
                    for i, a in enumerate(pl["a"]):
                        r = ft.roots_at(loc, a)
                        if r and ft.bits_of(a) >= 64 and min(ft.width_of(r), 64) >= 64:
                            line = _callee_arith_on_param(fx, pl["f"], i + 1, ops)
                            key = (loc, pl["f"])
                            if line is not None and key not in seen:
                                seen.add(key)
                                n += 1
                                nm = pl["f"].rsplit("::", 1)[-1]
                                ctx.obligation(rule, fn.id, "%s() feeding %s" % (nm, desc), False,
                                               sample={"fn": fn.id, "helper": nm, "line": pl["ln"], "guard": desc})
                                if report:
                                    ctx.violation(rule, fn.id, "%s(untrusted) before the bound check" % nm,
                                                  "the bound check %s compares the result of %s(), which applies unchecked "
                                                  "arithmetic (line %s) to the full-width untrusted argument: a huge value wraps "
                                                  "past the check (release) or panics (debug) instead of being refused"
                                                  % (desc, nm, line), fn.file, pl["ln"])
                    continue
                if kind != "assign" or len(pl[1]) != 1:
                    continue
                rv = pl[2]
                if rv[0] == "bin" and rv[1] in ops:
                    for o in (rv[2], rv[3]):
                        r = ft.roots_at(loc, o)
                        if r and ft.bits_of(o) >= 64 and min(ft.width_of(r), 64) >= 64:
                            key = (loc, rv[1])
                            if key in seen:
                                continue
                            seen.add(key)
                            n += 1
                            ol = op_local(o)
                            ctx.obligation(rule, fn.id, "%s feeding %s" % (rv[1], desc), False,
                                           sample={"fn": fn.id, "op": rv[1], "line": pl[3], "guard": desc,
                                                   "operand": fn.local_name(ol) if ol is not None else "?"})
                            if report:
                                ctx.violation(rule, fn.id, "%s on %s before the bound check" %
                                              (rv[1].replace("WithOverflow", ""), fn.local_name(ol) if ol is not None else "value"),
                                              "the bound check %s compares a value computed with unchecked %s on the full-width "
                                              "untrusted %s: a huge value wraps past the check (release) or panics (debug) instead "
                                              "of being refused" % (desc, rv[1].replace("WithOverflow", ""),
                                                                    fn.local_name(ol) if ol is not None else "operand"),
                                              fn.file, pl[3])
                    for o in (rv[2], rv[3]):
                        ll = op_local(o)
                        if ll is not None:
                            work.append(ll)
                elif rv[0] in ("use", "cast"):
                    ll = op_local(rv[1] if rv[0] == "use" else rv[2])
                    if ll is not None:
                        work.append(ll)
                elif rv[0] == "bin":
                    for o in (rv[2], rv[3]):
                        ll = op_local(o)
                        if ll is not None:
                            work.append(ll)
                elif rv[0] == "use" and False:
                    pass
            # tuple field of a WithOverflow result: (_t.0)
            for loc, kind, pl in fn.defs(l):
                if kind == "assign" and pl[2][0] == "use":
                    p = op_place(pl[2][1])
                    if p and len(p) == 2 and p[1] == ".0":
                        work.append(p[0])
    return n


# ---------------------------------------------------------------------- R-DIV
ZERO_TESTS = {("Eq", 0): True, ("Ne", 0): False, ("Gt", 0): False, ("Ge", 1): False, ("Lt", 1): True, ("Le", 0): True}


def _copy_class(fn, d):
    """locals holding the same value as d through plain copies/moves/int casts"""
    cls = {d}
    changed = True
    while changed:
        changed = False
        for loc, st in fn.iter_locs():
            if st[0] != "a" or len(st[1]) != 1:
                continue
            rv = st[2]
            o = rv[1] if rv[0] == "use" else (rv[2] if rv[0] == "cast" and rv[1] == "IntToInt" else None)
            if o is None:
                continue
            p = op_place(o)
            if not p or len(p) != 1:
                continue
            a, b = st[1][0], p[0]
            if (a in cls) != (b in cls) and (len(fn.defs(a)) == 1):
                cls |= {a, b}
                changed = True
    return cls


def zero_writable_fields(fx):
    """struct fields that some non-test function sets to the constant 0 (in a struct literal or by a store):
    {"path::Struct::field": writer fn id}"""
    zero = {}
    for fid in fx.fn_ids():
        if "::tests::" in fid:
            continue
        for k in range(fx.count(fid)):
            fn = Fn(fx.raw(fid, k))
            for loc, st in fn.iter_locs():
                if st[0] != "a":
                    continue
                if st[2][0] == "agg" and isinstance(st[2][1], str) and st[2][1].startswith("adt:") and len(st[2]) > 3 and st[2][3]:
                    for name, o in zip(st[2][3], st[2][2]):
                        kk = op_const(o)
                        if kk is not None and kk[0] == 0:
                            zero.setdefault(st[2][1][4:].rsplit("::", 1)[0] + "::" + name, fid)
                elif len(st[1]) > 1 and st[2][0] == "use":
                    kk = op_const(st[2][1])
                    if kk is not None and kk[0] == 0:
                        for e in st[1][1:]:
                            if isinstance(e, str) and e.startswith("."):
                                zero.setdefault(e[1:], fid)
    # a field copied from a zero-writable field (`Decoder { total: encoder.total }`) is zero-writable too
    edges = []
    for fid in fx.fn_ids():
        if "::tests::" in fid:
            continue
        for k in range(fx.count(fid)):
            fn = Fn(fx.raw(fid, k))
            for loc, st in fn.iter_locs():
                if st[0] == "a" and st[2][0] == "agg" and isinstance(st[2][1], str) and st[2][1].startswith("adt:") and len(st[2]) > 3 and st[2][3]:
                    for name, o in zip(st[2][3], st[2][2]):
                        l = op_local(o)
                        if l is None:
                            continue
                        for x in _copy_class(fn, l):
                            for d in fn.defs(x):
                                if d[1] == "assign" and d[2][2][0] == "use":
                                    pp = op_place(d[2][2][1])
                                    if pp and len(pp) > 1:
                                        for e in pp[1:]:
                                            if isinstance(e, str) and e.startswith(".") and "::" in e:
                                                edges.append((st[2][1][4:].rsplit("::", 1)[0] + "::" + name, e[1:], fid))
    changed = True
    while changed:
        changed = False
        for dst, src, fid in edges:
            if src in zero and dst not in zero:
                zero[dst] = zero[src]
                changed = True
    return zero


def _zero_field_of(fn, d, zero_fields):
    locs, sites = fn.backslice([d], max_nodes=30)
    for loc, kind, pl in sites:
        if kind == "assign":
            for o in rv_operands(pl[2]):
                pp = op_place(o)
                if pp:
                    for e in pp[1:]:
                        if isinstance(e, str) and e.startswith(".") and e[1:] in zero_fields:
                            return e[1:]
    return None


def check_div(ctx, fn, ft, rule="R-DIV", report=True, zero_fields=None):
    """a division/remainder whose divisor comes from untrusted data must be preceded by a test that sends the
    zero case elsewhere (or the divisor is built with max(_, k>=1) / NonZero)"""
    n = 0
    for b in fn.blocks():
        t = fn.term(b)
        if t[0] != "assert" or t[3] not in ("DivisionByZero", "RemainderByZero"):
            continue
        # the assert message carries the dividend; the divisor is the operand of the `== 0` test in the condition
        cl = op_local(t[1])
        dop = None
        for dl, kind, pl in (fn.defs(cl) if cl is not None else ()):
            if kind == "assign" and pl[2][0] == "bin" and pl[2][1] == "Eq":
                for x, y in ((pl[2][2], pl[2][3]), (pl[2][3], pl[2][2])):
                    k = op_const(y)
                    if k is not None and k[0] == 0 and op_local(x) is not None:
                        dop = x
        d = op_local(dop) if dop is not None else None
        if d is None:
            continue
        loc = (b, len(fn.stmts(b)))
        roots = ft.roots_at(loc, dop)
        zfield = None
        if not roots:
            # not data-dependent on the input, but read from a field that a constructor can leave at 0
            # (typically on an input-dependent branch: "empty table -> zeroed model")
            zfield = _zero_field_of(fn, d, zero_fields) if zero_fields else None
            if zfield is None:
                continue
        n += 1
        cls = _copy_class(fn, d)
        if zfield is not None:
            # other reads of the same field (`if self.total == 0 { .. }` before `x % self.total`)
            for loc2, st2 in fn.iter_locs():
                if st2[0] == "a" and len(st2[1]) == 1 and st2[2][0] == "use":
                    pp = op_place(st2[2][1])
                    if pp and any(isinstance(e, str) and e == "." + zfield for e in pp[1:]):
                        cls |= _copy_class(fn, st2[1][0])
        safe = None
        # clamp by construction
        for x in cls:
            for dl, kind, pl in fn.defs(x):
                if kind == "call" and pl["f"].rsplit("::", 1)[-1] in ("max", "clamp"):
                    ks = [op_const(a) for a in pl["a"][1:2]]
                    if ks and ks[0] is not None and isinstance(ks[0][0], int) and ks[0][0] >= 1:
                        safe = "max(_, %d)" % ks[0][0]
                if kind == "call" and "NonZero" in pl["f"]:
                    safe = "NonZero"
        if safe is None:
            for (sb, i), st in fn.iter_locs():
                if st[0] != "a" or st[2][0] != "bin" or len(st[1]) != 1:
                    continue
                for x, y, flip in ((st[2][2], st[2][3], False), (st[2][3], st[2][2], True)):
                    k = op_const(y)
                    if k is None or op_local(x) not in cls or not isinstance(k[0], int):
                        continue
                    op = st[2][1]
                    if flip:
                        op = {"Lt": "Gt", "Le": "Ge", "Gt": "Lt", "Ge": "Le"}.get(op, op)
                    zt = ZERO_TESTS.get((op, k[0]))
                    if zt is None:
                        continue
                    bl = st[1][0]
                    for wb in fn.blocks():
                        wt = fn.term(wb)
                        if wt[0] != "sw" or op_local(wt[1]) != bl or not fn.dominates(wb, b) or wb == b:
                            continue
                        ev = fn.switch_edge_values(wb)
                        explicit = [int(v) for v, _ in wt[2]]
                        want = 1 if zt else 0
                        for tgt, vals in ev.items():
                            if want in vals or ("otherwise" in vals and want not in explicit):
                                if b not in fn.reachable_from([tgt], avoid=[wb]):
                                    safe = "%s %d @%s" % (st[2][1], k[0], st[3])
        ok = safe is not None
        ctx.obligation(rule, fn.id, "%s by %s" % (t[3], fn.local_name(d)), ok,
                       sample={"fn": fn.id, "kind": t[3], "divisor": fn.local_name(d), "excluded_by": safe,
                               "from": [ft.root_desc[r][0] for r in sorted(roots)][:2] if roots else ["field " + zfield]})
        if not ok and report and zfield is not None:
            ctx.violation(rule, fn.id, "%s by field %s" % ("division" if t[3] == "DivisionByZero" else "remainder", zfield.rsplit("::", 1)[-1]),
                          "the divisor is read from %s, which %s sets to 0, and no dominating test sends the zero case elsewhere: "
                          "an input that selects that construction path panics the decoder instead of returning Err"
                          % (zfield, zero_fields[zfield].rsplit("::", 2)[-2] + "::" + zero_fields[zfield].rsplit("::", 1)[-1]),
                          fn.file, t[5] if len(t) > 5 else fn.line)
            continue
        if not ok and report:
            src = ft.root_desc[sorted(roots)[0]][0]
            ctx.violation(rule, fn.id, "%s by untrusted %s" % ("division" if t[3] == "DivisionByZero" else "remainder", fn.local_name(d)),
                          "the divisor %s comes from untrusted input (%s) and no dominating test sends the zero case "
                          "elsewhere: a crafted 0 panics instead of returning Err" % (fn.local_name(d), src), fn.file, t[5] if len(t) > 5 else fn.line)
    return n


# ------------------------------------------------------------------ R-RECURSE
def recursion_cycles(ctx, res, rule="R-RECURSE"):
    """no unbounded recursion on the parsing paths: the call graph of the parser closure (statically resolved callees)
    has no cycle, except where the recursive call is dominated by a comparison on an integer parameter and passes on
    a value computed from that parameter (an explicit depth budget). The nesting of a self-describing frame is chosen
    by the input; a decoder that re-enters itself per level turns a deep chain into a stack overflow (abort, not Err)."""
    import sys
    nodes = set(res)
    g = {f: set() for f in nodes}
    for f, (fn, ft) in res.items():
        for b, c in fn.calls():
            if c["f"] in nodes:
                g[f].add(c["f"])
    sys.setrecursionlimit(max(10000, sys.getrecursionlimit()))
    idx, low, st, on, comps, counter = {}, {}, [], set(), [], [0]

    def sc(v):
        idx[v] = low[v] = counter[0]
        counter[0] += 1
        st.append(v)
        on.add(v)
        for w in g[v]:
            if w not in idx:
                sc(w)
                low[v] = min(low[v], low[w])
            elif w in on:
                low[v] = min(low[v], idx[w])
        if low[v] == idx[v]:
            comp = []
            while True:
                w = st.pop()
                on.discard(w)
                comp.append(w)
                if w == v:
                    break
            if len(comp) > 1 or v in g[v]:
                comps.append(comp)
    for v in sorted(nodes):
        if v not in idx:
            sc(v)

    def budgeted(fn, b, c):
        ints = [i for i in range(1, fn.nargs + 1) if fn.ty(i) in ("usize", "u32", "u64", "u16", "u8", "i32")]
        for p in ints:
            cls = _copy_class(fn, p)
            guarded = False
            for (sb, i), s in fn.iter_locs():
                if s[0] == "a" and s[2][0] == "bin" and s[2][1] in ("Lt", "Le", "Gt", "Ge", "Eq", "Ne") and len(s[1]) == 1 and \
                        (op_local(s[2][2]) in cls or op_local(s[2][3]) in cls):
                    for wb in fn.blocks():
                        wt = fn.term(wb)
                        if wt[0] == "sw" and op_local(wt[1]) == s[1][0] and fn.dominates(wb, b) and wb != b:
                            guarded = True
            if guarded:
                fw = fn.forward_locals([p]) | {p}
                if any(op_local(a) in fw and op_local(a) not in cls for a in c["a"] if op_local(a) is not None):
                    return True
        return False
    n = 0
    for comp in comps:
        cs = set(comp)
        for f in sorted(comp):
            fn, ft = res[f]
            for b, c in fn.calls():
                if c["f"] in cs:
                    n += 1
                    ok = budgeted(fn, b, c)
                    ctx.obligation(rule, f, "recursive call carries a depth budget", ok,
                                   sample={"fn": f, "callee": c["f"], "line": c["ln"], "cycle": sorted(comp)[:4]})
                    if not ok:
                        ctx.violation(rule, f, "unbounded recursion through %s" % c["f"].rsplit("::", 1)[-1],
                                      "%s calls %s (line %d), which can reach %s again; nothing bounds the depth, so the nesting level "
                                      "is chosen by the input and a deep chain overflows the stack"
                                      % (f.rsplit("::", 1)[-1], c["f"].rsplit("::", 1)[-1], c["ln"], f.rsplit("::", 1)[-1]), fn.file, c["ln"])
    ctx.instance(rule + ".closure_fns", len(nodes))
    ctx.instance(rule + ".recursive_calls", n)
    return n


# ------------------------------------------------------------------ R-ARITH.sum
def narrow_sums(ctx, fx, entries, rule="R-ARITH.sum", res=None):
    """`Iterator::sum` / `product` adds with the plain `+` of the element type: overflow panics in debug builds and wraps
    in release builds. In every function reachable (call graph, resolved callees) from a parser entry point, a sum into
    an integer of at most 32 bits whose iterator derives from a parameter of the function - a table handed in by the
    decoder - is reported; `try_fold(.., checked_add)`, a widened `map(|x| x as u64).sum::<u64>()` or a fold with
    saturating arithmetic are the accepted forms (they are not `Iterator::sum` calls)."""
    seen = set(entries)
    work = list(entries)
    parent = {}
    while work:
        x = work.pop()
        rec = fx.cg.get(x)
        if not rec:
            continue
        for c in rec["calls"]:
            if c[0] in fx.cg and c[0] not in seen and "::tests::" not in c[0]:
                seen.add(c[0])
                parent[c[0]] = x
                work.append(c[0])
    n = 0
    for fid in sorted(seen):
        for k in range(fx.count(fid)):
            fn = Fn(fx.raw(fid, k))
            for b, c in fn.calls():
                if not re.search(r"Iterator::(sum|product)$", c["f"]) or not c["a"]:
                    continue
                ty = fn.ty(c["d"][0])
                l = op_local(c["a"][0])
                if l is None:
                    continue
                locs, _ = fn.backslice([l], max_nodes=40)
                from_param = [i for i in range(1, fn.nargs + 1) if i in locs]
                if not from_param and res is not None and fid in res and k == 0:
                    # a local collection filled from untrusted integers (taint engine: container contents)
                    rfn, ft = res[fid]
                    for bb, cc in rfn.calls():
                        if cc["ln"] == c["ln"] and cc["f"] == c["f"]:
                            loc = (bb, len(rfn.stmts(bb)))
                            tainted = set()
                            for x in locs:
                                try:
                                    tainted |= set(ft.roots_at(loc, ["c", [x]]) or ())
                                except Exception:
                                    pass
                            if tainted:
                                from_param = ["untrusted"]
                if not from_param:
                    continue
                n += 1
                ctx.analysed_fns.add(fid)
                ok = ty not in ("u8", "u16", "u32", "i8", "i16", "i32")
                chain, x = [], fid
                while x in parent and len(chain) < 4:
                    x = parent[x]
                    chain.append(x.rsplit("::", 1)[-1])
                ctx.obligation(rule, fid, "sum over a parameter table cannot overflow", ok,
                               sample={"fn": fid, "line": c["ln"], "result_type": ty, "reached_from": chain})
                if not ok:
                    ctx.violation(rule, fid, "unchecked %s sum over a table parameter" % ty,
                                  "%s adds the entries of a table it is handed with Iterator::%s into %s (line %d) and is reachable from "
                                  "the decoder entry %s: a table read from a malformed frame overflows the sum - a panic in debug builds, a "
                                  "wrapped total in release builds" % (fid.rsplit("::", 1)[-1], c["f"].rsplit("::", 1)[-1], ty, c["ln"],
                                                                        chain[-1] if chain else fid.rsplit("::", 1)[-1]), fn.file, c["ln"])
    ctx.instance(rule + ".reachable_fns", len(seen))
    ctx.instance(rule + ".sums", n)
    return n


# ------------------------------------------------------------------ R-STRSLICE
def str_byte_slices(ctx, res, rule="R-STRSLICE"):
    """`&s[a..b]` on a `str` panics when a or b is not a char boundary. In the parser closure a byte-offset range index
    of a `&str` (`Index<I> for str`) is accepted only under a dominating `is_char_boundary` / `is_ascii` test (or via
    `get(a..b)`, which is a different callee): text that arrives from outside can put a multi-byte character across
    any fixed offset - typically on the error path that wants to quote the offending piece."""
    n = 0
    for fid, (fn, ft) in sorted(res.items()):
        checks = [b for b, c in fn.calls() if c["f"].rsplit("::", 1)[-1] in ("is_char_boundary", "is_ascii")]
        for b, c in fn.calls():
            if not re.search(r"Index<[^>]*> for str>::index$|IndexMut<[^>]*> for str>::index_mut$", c["f"]):
                continue
            n += 1
            ok = any(fn.dominates(cb, b) and cb != b for cb in checks)
            ctx.obligation(rule, fid, "str range index under a char-boundary test", ok, sample={"fn": fid, "line": c["ln"]})
            if not ok:
                ctx.violation(rule, fid, "byte-offset slice of untrusted text",
                              "%s slices a &str by byte offsets (line %d) without an is_char_boundary / is_ascii test: input with a "
                              "multi-byte character across the offset panics instead of returning Err" % (fid.rsplit("::", 1)[-1], c["ln"]),
                              fn.file, c["ln"])
    ctx.instance(rule + ".sites", n)
    return n
