"""R-GUARD / R-ALLOC: untrusted sizes and indices must be checked before they size an
allocation, index memory or feed an unsafe access.

Two kinds of untrusted values per function:
  BUF    : a buffer whose *content* is untrusted (its length is trusted)
  SCALAR : an integer read out of such a buffer (or produced by a source call)
Every SCALAR carries the set of source sites ("roots") it derives from. A sink whose
operand is SCALAR is discharged by a dominating, deciding guard that compares a value
sharing a root with the operand against something that is not itself untrusted, or by a
clamp (min / & / %) against an untrusted-free value, or by a narrow source width.
Shape is checked, arithmetic is not.
"""
import re
from collections import defaultdict, deque

from vlib.mir import Fn, op_local, op_place, op_const, rv_operands, place_locals

INT_TYPES = {"u8": 8, "u16": 16, "u32": 32, "u64": 64, "usize": 64, "u128": 128,
             "i8": 8, "i16": 16, "i32": 32, "i64": 64, "isize": 64, "i128": 128}

BUF_RE = re.compile(r"^(&(mut )?)*(\[u8\]|\[u8; [^\]]+\]|std::vec::Vec<u8>|std::boxed::Box<\[u8\]>|"
                    r"std::borrow::Cow<'[^,]*, \[u8\]>|str|std::string::String|memmap2::Mmap)$")
BUFISH_RE = re.compile(r"\[u8\]|\[u8; |Vec<u8>|slice::Iter<'[^,]*, u8>|Chunks|memmap2::Mmap")

LEN_CALLS = ("len", "is_empty", "capacity", "as_ptr", "as_mut_ptr", "remaining", "size")
PASS_BUF_CALLS = ("deref", "deref_mut", "as_ref", "as_mut", "as_slice", "as_mut_slice", "as_bytes", "borrow",
                  "index", "index_mut", "get", "get_mut", "get_unchecked", "get_unchecked_mut", "split_at",
                  "split_at_mut", "split_at_checked", "iter", "iter_mut", "into_iter", "chunks", "chunks_exact",
                  "windows", "to_vec", "to_owned", "clone", "unwrap", "expect", "branch", "ok_or", "ok_or_else",
                  "map_err", "try_into", "into", "from", "first", "last", "split_first", "split_last", "next",
                  "by_ref", "take", "skip", "enumerate", "zip", "rev", "peekable", "copied", "cloned", "as_str",
                  "bytes", "from_residual", "unwrap_or", "unwrap_or_default", "ok", "map", "and_then", "new",
                  "strip_prefix", "strip_suffix", "trim_ascii", "try_from", "from_raw_parts", "from_raw_parts_mut")

SRC_CALL_RE = re.compile(
    r"core::num::<impl [ui](8|16|32|64|128|size)>::from_(le|be|ne)_bytes$"
    r"|DataInput::read_(u8|u16|u32|u64|i8|i16|i32|i64|var_int|length_prefix|f32|f64)"
    r"|DataInput>::read_(u8|u16|u32|u64|i8|i16|i32|i64|var_int|f32|f64)"
    r"|::read_(u8|u16|u32|u64|i8|i16|i32|i64|var_int|varint|uleb128|leb128)(_le|_be)?$"
    r"|io::var_int::VarInt::(decode|read_from|decode_signed|from_bytes)"
    r"|byteorder|bytemuck::.*::pod_read_unaligned")
FILL_BUF_RE = re.compile(r"Read::read_exact$|Read::read$|Read::read_to_end$|DataInput::read_bytes$|::read_exact$|"
                         r"DataInput>::read_bytes$|::read_bytes$")

ALLOC_SINKS = [
    (re.compile(r"Vec::<.*>::with_capacity(_in)?$|::with_capacity$|::with_capacity_and_hasher$"), 0),
    (re.compile(r"std::vec::from_elem$|alloc::vec::from_elem$"), 1),
    (re.compile(r"Vec::<.*>::resize$|Vec::<.*>::reserve(_exact)?$|::reserve(_exact)?$|::resize$|"
                r"String::reserve$|VecDeque::<.*>::reserve$"), 1),
    (re.compile(r"std::string::String::with_capacity$"), 0),
    (re.compile(r"Box::<\[.*\]>::new_uninit_slice$|Box::<\[.*\]>::new_zeroed_slice$"), 0),
    (re.compile(r"std::alloc::Layout::array$|core::alloc::Layout::array$|Layout::from_size_align(_unchecked)?$"), 0),
    (re.compile(r"std::iter::repeat_n$"), 1),
]
UNSAFE_SINKS = [
    (re.compile(r"get_unchecked(_mut)?$"), 1, "get_unchecked"),
    (re.compile(r"ptr::(mut_ptr|const_ptr)::<impl \*(mut|const) T>::(add|offset|sub|byte_add)$|NonNull::<T>::add$"), 1, "ptr.add"),
    (re.compile(r"(ptr|intrinsics)::copy_nonoverlapping$|ptr::copy$|ptr::write_bytes$"), 2, "copy"),
    (re.compile(r"slice::from_raw_parts(_mut)?$"), 1, "from_raw_parts"),
    (re.compile(r"Vec::<.*>::set_len$"), 1, "set_len"),
]
SLICE_INDEX_RE = re.compile(r"ops::Index(Mut)?<.*>.*::index(_mut)?$|slice::index::<impl .*Index(Mut)?<I> for \[T\]>::index(_mut)?$|"
                            r"<impl .*Index(Mut)?<I> for (str|std::string::String)>::index(_mut)?$")
SPLIT_RE = re.compile(r"core::slice::<impl \[T\]>::(split_at|split_at_mut|copy_within|rotate_left|rotate_right)$|"
                      r"Vec::<.*>::(truncate_front|split_off|drain|remove|swap_remove)$")
UNWRAP_RE = re.compile(r"(option::Option|result::Result)::<.*>::(unwrap|expect)$")
PANIC_RE = re.compile(r"core::panicking::(panic|panic_fmt|panic_explicit|unreachable_display|assert_failed|panic_nounwind)"
                      r"|std::rt::begin_panic|core::panicking::panic_const")
CMP_OPS = ("Lt", "Le", "Gt", "Ge", "Eq", "Ne")
CLAMP_CALLS = ("min", "clamp")
CHECK_CALLS = re.compile(r"::checked_(add|sub|mul|div|rem|shl|shr|pow|next_power_of_two)$|::try_from$|::try_into$|"
                         r"::get(_mut)?$|::split_at_checked$|::first$|::last$|::split_first$|::strip_prefix$|"
                         r"::is_char_boundary$|::contains_key$|::contains$|::starts_with$|::ends_with$|::get_or$")


def int_width(ty):
    ty = ty.replace("&", "").replace("mut ", "").strip()
    return INT_TYPES.get(ty)


def is_buf_type(ty):
    return bool(BUF_RE.match(ty))


def is_bufish(ty):
    return bool(BUFISH_RE.search(ty))


def has_int(ty):
    return re.search(r"\b(u8|u16|u32|u64|usize|u128|i8|i16|i32|i64|isize|i128)\b", ty) is not None


class FnTaint:
    def __init__(self, fn, buf_params=(), scalar_params=(), buf_fields=(), scalar_fields=(), summaries=None,
                 extra_sources=None):
        self.fn = fn
        self.buf = set()                 # BUF locals
        self.roots = defaultdict(set)    # SCALAR local -> root ids
        self.root_desc = []              # id -> description
        self.clean_bounded = set()       # locals produced by clamp/mask against an untrusted-free value
        self.buf_fields = [re.compile(x) for x in buf_fields]
        self.scalar_fields = [re.compile(x) for x in scalar_fields]
        self.summaries = summaries
        self.extra_sources = extra_sources
        fn._build_uses()
        self.env_buf = {-p - 1 for p in buf_params if p < 0}
        self.env_scalar = {-p - 1 for p in scalar_params if p < 0}
        for p in buf_params:
            if p > 0:
                self.buf.add(p)
        for p in scalar_params:
            if p > 0:
                self._new_root(p, "param %s" % fn.local_name(p), int_width(fn.ty(p)) or 64)
        self._seed()
        self._propagate()

    def _new_root(self, l, desc, width):
        rid = len(self.root_desc)
        self.root_desc.append((desc, width))
        self.roots[l].add(rid)
        return rid

    # ------------------------------------------------------------------
    def _field_kind(self, place):
        if place[0] == 1 and (self.env_buf or self.env_scalar):
            for e in place[1:]:
                if isinstance(e, str) and re.match(r"^\.\d+$", e):
                    i = int(e[1:])
                    if i in self.env_buf:
                        return "buf"
                    if i in self.env_scalar:
                        return "scalar"
                    break
        for e in place[1:]:
            if isinstance(e, str) and e.startswith("."):
                k = e[1:]
                for rx in self.buf_fields:
                    if rx.search(k):
                        return "buf"
                for rx in self.scalar_fields:
                    if rx.search(k):
                        return "scalar"
        return None

    def _seed(self):
        fn = self.fn
        for loc, st in fn.iter_locs():
            if st[0] == "a":
                dst, rv = st[1], st[2]
                for o in rv_operands(rv):
                    p = op_place(o)
                    if p:
                        fk = self._field_kind(p)
                        if fk == "buf" and len(dst) == 1:
                            self.buf.add(dst[0])
                        elif fk == "scalar" and len(dst) == 1 and (has_int(fn.ty(dst[0]))):
                            self._new_root(dst[0], "field %s line %s" % (p[-1], st[3]), int_width(fn.ty(dst[0])) or 64)
            elif st[0] == "call":
                c = st[1]
                f = c["f"]
                alias = c.get("st", "")
                if SRC_CALL_RE.search(f) or SRC_CALL_RE.search(alias) or \
                        (self.extra_sources and self.extra_sources.search(f)):
                    d = c["d"][0]
                    w = None
                    m = re.search(r"<impl ([ui](?:8|16|32|64|128|size))>::from_", f)
                    if m:
                        w = INT_TYPES[m.group(1)]
                    m2 = re.search(r"read_([ui](?:8|16|32|64))", f)
                    if m2:
                        w = INT_TYPES[m2.group(1)]
                    self._new_root(d, "%s line %s" % (f.rsplit("::", 2)[-2] + "::" + f.rsplit("::", 1)[-1], c["ln"]),
                                   w or int_width(fn.ty(d)) or 64)
                if FILL_BUF_RE.search(f) or FILL_BUF_RE.search(alias):
                    for a in c["a"][1:]:
                        l = op_local(a)
                        if l is not None:
                            for t in fn.points_to(l) or ():
                                self.buf.add(t)
                            if is_bufish(fn.ty(l)):
                                self.buf.add(l)

    def _call_effect(self, c, dst):
        """effect of a call on its destination given current facts; returns changed"""
        fn = self.fn
        f = c["f"]
        last = f.rsplit("::", 1)[-1]
        dty = fn.ty(dst)
        arg_locals = [op_local(a) for a in c["a"]]
        arg_locals = [a for a in arg_locals if a is not None]
        any_buf = any(a in self.buf for a in arg_locals)
        s_roots = set()
        for a in arg_locals:
            s_roots |= self.roots.get(a, set())
        changed = False
        if last in LEN_CALLS and any_buf and not s_roots:
            return False
        # clamp: result bounded by the untrusted-free argument
        if last in CLAMP_CALLS and len(arg_locals) + sum(1 for a in c["a"] if op_const(a)) >= 2:
            consts = [a for a in c["a"] if op_const(a) is not None]
            clean_args = [a for a in arg_locals if not self.roots.get(a) and a not in self.buf]
            if consts or clean_args:
                if dst not in self.clean_bounded:
                    self.clean_bounded.add(dst)
                return False
        if any_buf:
            if is_bufish(dty) or (last in PASS_BUF_CALLS and not int_width(dty) and not has_int_only(dty)):
                if dst not in self.buf:
                    self.buf.add(dst)
                    changed = True
            if has_int(dty) and last not in LEN_CALLS and not is_bufish(dty):
                # integer(s) computed from untrusted content
                if c.get("loc") and self.summaries is not None:
                    pass
                if not self.roots.get(dst):
                    self._new_root(dst, "%s(buffer) line %s" % (last, c["ln"]), int_width(dty) or 64)
                    changed = True
        if s_roots:
            if c.get("loc") and self.summaries is not None:
                # crate-local callee: use the summary (does the return depend on these args?)
                dep = self.summaries.ret_depends(f)
                if dep is not None:
                    s_roots = set()
                    for i, a in enumerate(c["a"]):
                        l = op_local(a)
                        if l is not None and (i + 1) in dep:
                            s_roots |= self.roots.get(l, set())
            if s_roots - self.roots.get(dst, set()):
                self.roots[dst] |= s_roots
                changed = True
        return changed

    def _propagate(self):
        fn = self.fn
        changed = True
        rounds = 0
        while changed and rounds < 40:
            changed = False
            rounds += 1
            for loc, st in fn.iter_locs():
                if st[0] == "a":
                    dst, rv = st[1], st[2]
                    d = dst[0]
                    k = rv[0]
                    # destination through a pointer: taint what it points to as well
                    targets = [d]
                    if len(dst) > 1 and "*" in dst[1:]:
                        targets += list(fn.points_to(d))
                    srcs = []
                    for o in rv_operands(rv):
                        p = op_place(o)
                        if p:
                            srcs.append(p)
                    if k == "un" and rv[1] == "PtrMetadata":
                        continue
                    if k == "other" and "Len(" in str(rv[1]):
                        continue
                    new_roots = set()
                    from_buf = False
                    for p in srcs:
                        for x in place_locals(p):
                            new_roots |= self.roots.get(x, set())
                        if p[0] in self.buf:
                            from_buf = True
                    # clamps by mask / modulo / shift against an untrusted-free operand
                    if k == "bin" and rv[1] in ("BitAnd", "Rem"):
                        a, b = rv[2], rv[3]
                        other_clean = False
                        for x, y in ((a, b), (b, a)):
                            if op_const(y) is not None:
                                other_clean = True
                            else:
                                ly = op_local(y)
                                if ly is not None and not self.roots.get(ly) and ly not in self.buf:
                                    other_clean = True
                        if other_clean and rv[1] == "BitAnd":
                            for t in targets:
                                self.clean_bounded.add(t)
                            continue
                        if rv[1] == "Rem":
                            y = rv[3]
                            ly = op_local(y)
                            if op_const(y) is not None or (ly is not None and not self.roots.get(ly)):
                                for t in targets:
                                    self.clean_bounded.add(t)
                                continue
                    if k == "bin" and rv[1] in CMP_OPS:
                        continue  # booleans are handled as guards, not as tainted data
                    if k == "disc":
                        continue
                    for t in targets:
                        tty = fn.ty(t)
                        if from_buf:
                            if is_bufish(tty) and not (k == "use" and int_width(tty)):
                                if t not in self.buf:
                                    self.buf.add(t)
                                    changed = True
                            elif has_int(tty) or int_width(tty):
                                # byte (or integer) loaded from untrusted content
                                if not any(self.root_desc[r][0].startswith("load@%d" % st[3]) for r in self.roots.get(t, ())):
                                    if not self.roots.get(t):
                                        self._new_root(t, "load@%d from %s" % (st[3], fn.local_name(srcs[0][0]) if srcs else "?"),
                                                       int_width(tty) or 8)
                                        changed = True
                        if new_roots - self.roots.get(t, set()):
                            self.roots[t] |= new_roots
                            changed = True
                elif st[0] == "call":
                    c = st[1]
                    d = c["d"][0]
                    if self._call_effect(c, d):
                        changed = True
                    # &mut out-params filled by a callee that received untrusted data
                    f = c["f"]
        # locals that were clamped are not tainted for sink purposes
        return

    # ------------------------------------------------------------------
    def tainted(self, l):
        return bool(self.roots.get(l)) and l not in self.clean_bounded

    def op_roots(self, op):
        p = op_place(op)
        if not p:
            return set()
        r = set()
        for x in place_locals(p):
            if x not in self.clean_bounded:
                r |= self.roots.get(x, set())
        return r

    def width_of(self, roots):
        return max((self.root_desc[r][1] for r in roots), default=0)


def has_int_only(ty):
    return bool(re.match(r"^(std::option::Option<|std::result::Result<)?\(?[ui](8|16|32|64|size)", ty))


# ---------------------------------------------------------------------- guards
class Guards:
    """deciding comparisons of a function"""

    def __init__(self, fn, ft):
        self.fn = fn
        self.ft = ft
        self.items = []   # (block, roots_of_compared_values, other_side_clean, description, line)
        self._collect()

    def _cmp_sides(self, l, depth=0):
        """for a boolean/discriminant local: list of (side_a_roots, side_b_roots, clean_a, clean_b, desc)"""
        fn, ft = self.fn, self.ft
        out = []
        if depth > 6:
            return out
        for loc, kind, pl in fn.defs(l):
            if kind == "assign" and len(pl[1]) == 1:
                rv = pl[2]
                if rv[0] == "bin" and rv[1] in CMP_OPS:
                    ra, rb = ft.op_roots(rv[2]), ft.op_roots(rv[3])
                    out.append((ra, rb, self._clean(rv[2]), self._clean(rv[3]), "%s@%s" % (rv[1], pl[3])))
                elif rv[0] == "use" and op_place(rv[1]) and len(op_place(rv[1])) == 1:
                    out += self._cmp_sides(op_local(rv[1]), depth + 1)
                elif rv[0] == "un" and rv[1] == "Not":
                    ll = op_local(rv[2])
                    if ll is not None:
                        out += self._cmp_sides(ll, depth + 1)
                elif rv[0] == "bin" and rv[1] in ("BitAnd", "BitOr"):
                    for o in (rv[2], rv[3]):
                        ll = op_local(o)
                        if ll is not None:
                            out += self._cmp_sides(ll, depth + 1)
                elif rv[0] == "disc":
                    base = rv[1][0]
                    # discriminant of an Option/Result produced by a checking call
                    for loc2, kind2, pl2 in fn.defs(base):
                        if kind2 == "call":
                            out += self._call_sides(pl2)
                        elif kind2 == "assign" and pl2[2][0] == "use" and op_local(pl2[2][1]) is not None:
                            for loc3, kind3, pl3 in fn.defs(op_local(pl2[2][1])):
                                if kind3 == "call":
                                    out += self._call_sides(pl3)
            elif kind == "call":
                out += self._call_sides(pl)
        return out

    def _call_sides(self, c):
        ft = self.ft
        f = c["f"]
        last = f.rsplit("::", 1)[-1]
        rs = [ft.op_roots(a) for a in c["a"]]
        allr = set().union(*rs) if rs else set()
        if not allr:
            # branch()/map_err() wrappers around a checking call: look through first arg
            if last in ("branch", "ok_or", "ok_or_else", "map_err", "ok", "is_some", "is_none", "is_ok", "is_err",
                        "as_ref", "copied", "cloned") and c["a"]:
                l = op_local(c["a"][0])
                if l is not None:
                    out = []
                    for loc, kind, pl in self.fn.defs(l):
                        if kind == "call":
                            out += self._call_sides(pl)
                    return out
            return []
        if CHECK_CALLS.search(f) or last.startswith("is_") or last.startswith("has_") or last.startswith("can_") \
                or last in ("contains", "validate", "check_bounds", "ensure", "verify"):
            # a checking helper: the untrusted value is compared inside (against the receiver's state)
            return [(allr, set(), False, True, "%s()@%s" % (last, c["ln"]))]
        if last in ("branch", "ok_or", "ok_or_else", "map_err", "ok", "is_some", "is_none", "is_ok", "is_err",
                    "as_ref", "copied", "cloned", "eq", "ne", "lt", "le", "gt", "ge", "cmp", "partial_cmp"):
            if last in ("eq", "ne", "lt", "le", "gt", "ge", "cmp", "partial_cmp") and len(c["a"]) == 2:
                return [(rs[0], rs[1], self._clean(c["a"][0]), self._clean(c["a"][1]), "%s()@%s" % (last, c["ln"]))]
            l = op_local(c["a"][0]) if c["a"] else None
            out = []
            if l is not None:
                for loc, kind, pl in self.fn.defs(l):
                    if kind == "call":
                        out += self._call_sides(pl)
            return out
        if c.get("loc") and self.ft.summaries is not None and self.ft.summaries.is_validator(f):
            return [(allr, set(), False, True, "validator %s@%s" % (last, c["ln"]))]
        return []

    def _clean(self, op):
        """operand is not (purely) untrusted: constant, or has no roots"""
        if op_const(op) is not None:
            return True
        return not self.ft.op_roots(op)

    def _collect(self):
        fn = self.fn
        for b in fn.blocks():
            t = fn.term(b)
            if t[0] != "sw":
                continue
            l = op_local(t[1])
            if l is None:
                continue
            for ra, rb, ca, cb, desc in self._cmp_sides(l):
                if ra and cb:
                    self.items.append((b, ra, desc))
                if rb and ca:
                    self.items.append((b, rb, desc))
        # asserts are guards too (they refuse by panicking): only used where a panic is an accepted refusal

    def protecting(self, sink_block, roots, sink_idx=None):
        """guards that dominate the sink, decide it, and share a root with the operand"""
        fn = self.fn
        out = []
        for b, groots, desc in self.items:
            if not (groots & roots):
                continue
            if b == sink_block or not fn.dominates(b, sink_block):
                continue
            decides = any(sink_block not in fn.reachable_from([s], avoid=[b]) for s in fn.succ(b))
            if decides:
                out.append((b, desc))
        return out


# ---------------------------------------------------------------------- sinks
def _agg_operands(fn, l):
    """operands of the aggregate that defines local l (e.g. a Range), else None"""
    ds = [d for d in fn.defs(l) if d[1] == "assign" and len(d[2][1]) == 1]
    if len(ds) == 1 and ds[0][2][2][0] == "agg":
        return ds[0][2][2][2]
    return None


def sink_sites(fn):
    """yield (kind, block, operand, description, line)"""
    for b in fn.blocks():
        t = fn.term(b)
        if t[0] == "assert" and t[3] == "BoundsCheck":
            yield ("index", b, t[4][1], "index", t[6], t[4][0])
        elif t[0] == "call":
            c = t[1]
            f = c["f"]
            for rx, ai in ALLOC_SINKS:
                if rx.search(f) and len(c["a"]) > ai:
                    yield ("alloc", b, c["a"][ai], f.rsplit("::", 1)[-1], c["ln"], None)
                    break
            for rx, ai, nm in UNSAFE_SINKS:
                if rx.search(f) and len(c["a"]) > ai:
                    yield ("unsafe", b, c["a"][ai], nm, c["ln"], None)
                    break
            if SLICE_INDEX_RE.search(f) and len(c["a"]) >= 2:
                l = op_local(c["a"][1])
                ops = _agg_operands(fn, l) if l is not None else None
                if ops is not None:
                    for o in ops:
                        yield ("slice", b, o, "slice-range", c["ln"], None)
                else:
                    yield ("slice", b, c["a"][1], "slice-index", c["ln"], None)
            elif SPLIT_RE.search(f) and len(c["a"]) >= 2:
                yield ("slice", b, c["a"][1], f.rsplit("::", 1)[-1], c["ln"], None)


def check_sinks(ctx, fn, ft, rule_prefix, kinds=("alloc", "index", "slice", "unsafe"), report=True):
    g = None
    n = 0
    for kind, b, op, desc, line, lenop in sink_sites(fn):
        if kind not in kinds:
            continue
        roots = ft.op_roots(op)
        if not roots:
            continue
        n += 1
        if g is None:
            g = Guards(fn, ft)
        rule = rule_prefix + {"alloc": "R-ALLOC", "index": "R-GUARD.index", "slice": "R-GUARD.slice",
                              "unsafe": "R-GUARD.unsafe"}[kind]
        width = ft.width_of(roots)
        why = None
        if kind == "alloc" and width <= 16:
            why = "source width %d bits" % width
        if kind == "index" and lenop is not None:
            c = op_const(lenop)
            if c is not None and isinstance(c[0], int) and width < 64 and (1 << width) <= c[0]:
                why = "index type-bounded (%d bits) for array of %d" % (width, c[0])
        prot = g.protecting(b, roots) if why is None else []
        ok = bool(why) or bool(prot)
        l = op_local(op)
        nm = fn.local_name(l) if l is not None else "?"
        ctx.obligation(rule, fn.id, "%s(%s)" % (desc, nm), ok,
                       sample={"fn": fn.id, "sink": desc, "operand": nm, "line": line,
                               "untrusted_sources": [ft.root_desc[r][0] for r in sorted(roots)][:4],
                               "discharged_by": why or [d for _, d in prot][:3]})
        if not ok and report:
            srcs = ", ".join(ft.root_desc[r][0] for r in sorted(roots)[:3])
            what = {"alloc": "sizes an allocation", "index": "indexes (panics when out of range)",
                    "slice": "bounds a slice operation (panics when out of range)",
                    "unsafe": "feeds an unchecked memory access"}[kind]
            ctx.violation(rule, fn.id, "%s(%s)" % (desc, nm if not nm.startswith("_") else "tmp"),
                          "untrusted value %s (from %s) %s with no dominating check against a trusted bound"
                          % (nm, srcs, what), fn.file, line)
    return n


# ---------------------------------------------------------------------- interprocedural driver
class Summaries:
    def __init__(self, fx):
        self.fx = fx
        self._dep = {}
        self._val = {}

    def fn(self, fid):
        rec = self.fx.raw(fid)
        return Fn(rec) if rec else None

    def ret_depends(self, fid):
        if fid in self._dep:
            return self._dep[fid]
        self._dep[fid] = None
        fn = self.fn(fid)
        if fn is None:
            return None
        locs, _ = fn.backslice([0])
        dep = {l for l in locs if 1 <= l <= fn.nargs}
        self._dep[fid] = dep
        return dep

    def is_validator(self, fid):
        if fid in self._val:
            return self._val[fid]
        self._val[fid] = False
        fn = self.fn(fid)
        if fn is None:
            return False
        rt = fn.ty(0)
        if not ("Result<" in rt or "Option<" in rt or rt == "bool"):
            return False
        for b in fn.blocks():
            t = fn.term(b)
            if t[0] == "sw":
                l = op_local(t[1])
                if l is None:
                    continue
                locs, _ = fn.backslice([l])
                if any(1 <= x <= fn.nargs and int_width(fn.ty(x)) for x in locs):
                    self._val[fid] = True
                    return True
        return False


class Closure:
    """analyses a set of entry functions and everything they pass untrusted data to"""

    def __init__(self, fx, buf_fields=(), scalar_fields=(), extra_sources=None, scope_files=None, max_fns=3000):
        self.fx = fx
        self.summ = Summaries(fx)
        self.buf_fields = buf_fields
        self.scalar_fields = scalar_fields
        self.extra_sources = extra_sources
        self.scope_files = scope_files
        self.state = {}     # fid -> (set buf params, set scalar params)
        self.results = {}   # fid -> (Fn, FnTaint)
        self.max_fns = max_fns

    def seed_entry(self, fid, buf_params=None, scalar_params=()):
        rec = self.fx.raw(fid)
        if rec is None:
            return False
        fn = Fn(rec)
        if buf_params is None:
            buf_params = [i for i in range(1, fn.nargs + 1) if is_buf_type(fn.ty(i))]
        self._merge(fid, set(buf_params), set(scalar_params))
        return True

    def _merge(self, fid, bufs, scal):
        cur = self.state.get(fid)
        if cur is None:
            self.state[fid] = (set(bufs), set(scal))
            self.queue.append(fid)
            return
        if bufs - cur[0] or scal - cur[1]:
            cur[0].update(bufs)
            cur[1].update(scal)
            self.queue.append(fid)

    queue = None

    def run(self):
        fx = self.fx
        n = 0
        while self.queue and n < self.max_fns * 3:
            fid = self.queue.popleft()
            n += 1
            rec = fx.raw(fid)
            if rec is None:
                continue
            if self.scope_files is not None and rec["file"] not in self.scope_files:
                continue
            fn = Fn(rec)
            bufs, scal = self.state[fid]
            ft = FnTaint(fn, bufs, scal, self.buf_fields, self.scalar_fields, self.summ, self.extra_sources)
            self.results[fid] = (fn, ft)
            for b, c in fn.calls():
                callee = c["f"]
                if not c["loc"] or not fx.has(callee):
                    continue
                cb, cs = set(), set()
                for i, a in enumerate(c["a"]):
                    l = op_local(a)
                    if l is None:
                        continue
                    if l in ft.buf:
                        cb.add(i + 1)
                    elif ft.tainted(l):
                        cs.add(i + 1)
                if cb or cs:
                    self._merge(callee, cb, cs)
            # closures built here capture untrusted values: seed them through their env fields
            for loc, st in fn.iter_locs():
                if st[0] == "a" and st[2][0] == "agg" and isinstance(st[2][1], str) and st[2][1].startswith("closure:"):
                    cid = st[2][1][8:]
                    if not fx.has(cid):
                        continue
                    eb, es = set(), set()
                    for i, o in enumerate(st[2][2]):
                        l = op_local(o)
                        if l is None:
                            continue
                        if l in ft.buf or any(t in ft.buf for t in fn.points_to(l)):
                            eb.add(-(i + 1))
                        elif ft.tainted(l) or any(ft.tainted(t) for t in fn.points_to(l)):
                            es.add(-(i + 1))
                    if eb or es:
                        self._merge(cid, eb, es)
        return self.results


def new_closure(*a, **k):
    c = Closure(*a, **k)
    c.queue = deque()
    return c
