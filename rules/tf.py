"""R-TF: every call of a #[target_feature] function from a caller that does not carry the
features is dominated by a runtime check implying them; every dispatcher keeps a
feature-free path to a return.

Guard values are inferred, not listed: an abstract value is
  ('bool', S)   : value == true  implies features S
  ('enum', {variant_index: S}) : value == variant implies S
computed from std_detect / raw_cpuid roots through copies, struct fields (all crate-wide
writers of the field), function returns (all return sites, each strengthened by the path
condition of its block), !, &, |.
"""
from collections import defaultdict

from vlib.mir import Fn, op_place, op_local, op_const, place_has_deref

TOP = "TOP"  # "all features": the value can never be true / the variant is never produced
OPT = ("opt",)  # optimistic placeholder for a summary that is being computed (ignored by joins)

ARCH_IMPLIES = {
    "avx512bw": ["avx512f"], "avx512vl": ["avx512f"], "avx512dq": ["avx512f"], "avx512cd": ["avx512f"],
    "avx512vbmi": ["avx512bw"], "avx512vbmi2": ["avx512bw"], "avx512vnni": ["avx512f"],
    "avx512bitalg": ["avx512bw"], "avx512vpopcntdq": ["avx512f"], "avx512ifma": ["avx512f"],
    "avx512f": ["avx2", "fma", "f16c"], "avx2": ["avx"], "fma": ["avx"], "f16c": ["avx"],
    "avx": ["sse4.2"], "sse4.2": ["sse4.1"], "sse4.1": ["ssse3"], "ssse3": ["sse3"],
    "sse3": ["sse2"], "sse2": ["sse"], "aes": ["sse2"], "pclmulqdq": ["sse2"], "sha": ["sse2"],
    "sse4a": ["sse3"], "vaes": ["avx2", "aes"], "vpclmulqdq": ["avx", "pclmulqdq"], "gfni": ["sse2"],
}
# no shipped x86-64 part has the left feature without the right ones (documented modelling
# assumption, listed in the evidence): BMI2 arrived with BMI1/LZCNT (Haswell, Excavator),
# BMI1/AVX2/SSE4.2 parts all have POPCNT.
MICROARCH_IMPLIES = {
    "bmi2": ["bmi1", "popcnt", "lzcnt"],
    "bmi1": ["popcnt"],
    "avx2": ["popcnt", "lzcnt"],
    "sse4.2": ["popcnt"],
}
BASELINE = {"sse", "sse2", "fxsr", "x87", "cmpxchg8b", "mmx"}


def closure(fs):
    out = set()
    st = list(fs)
    while st:
        f = st.pop()
        if f in out:
            continue
        out.add(f)
        st.extend(ARCH_IMPLIES.get(f, []))
        st.extend(MICROARCH_IMPLIES.get(f, []))
    return out


def detect_root(callee):
    if callee.startswith("std_detect::detect::arch::x86::__is_feature_detected::"):
        n = callee.rsplit("::", 1)[1]
        n = {"sse4_1": "sse4.1", "sse4_2": "sse4.2"}.get(n, n)
        return n
    if callee.startswith("raw_cpuid::") and "::has_" in callee:
        n = callee.rsplit("::has_", 1)[1]
        n = {"sse41": "sse4.1", "sse42": "sse4.2", "pclmulqdq": "pclmulqdq"}.get(n, n)
        return n
    return None


def meet(a, b):
    """value is produced by def a OR def b: implied = intersection (TOP = never true)"""
    if a is TOP:
        return b
    if b is TOP:
        return a
    return a & b


class TfAnalysis:
    def __init__(self, fx):
        self.fx = fx
        self.fns = {}
        self.field_memo = {}
        self.ret_memo = {}
        self.guar_memo = {}
        self.guar_done = set()
        self.inprog = set()
        self.field_writers = None
        self.log = []

    def fn(self, fid):
        if fid not in self.fns:
            rec = self.fx.raw(fid)
            if rec is None:
                self.fns[fid] = None
            else:
                f = Fn(rec)
                f.prune_edges(f.const_switch_edges())
                self.fns[fid] = f
        return self.fns[fid]

    # ---------- abstract values
    def absval_op(self, fn, op, depth=0):
        c = op_const(op)
        if c is not None:
            if c[1] == "bool":
                return ("bool", TOP if c[0] == 0 else frozenset())
            return None
        p = op_place(op)
        if p is None:
            return None
        return self.absval_place(fn, p, depth)

    def absval_place(self, fn, p, depth=0):
        if depth > 12:
            return None
        fields = [e for e in p[1:] if isinstance(e, str) and e.startswith(".")]
        if fields:
            last = fields[-1][1:]
            if "::" in last:
                return self.field_val(last)
            # tuple field: look through an aggregate def of the base local
            if len(p) == 2:
                idx = int(last)
                ds = fn.defs(p[0])
                vals = []
                for loc, kind, pl in ds:
                    if kind == "assign" and len(pl[1]) == 1 and pl[2][0] == "agg" and pl[2][1] == "tuple":
                        vals.append(self.absval_op(fn, pl[2][2][idx], depth + 1))
                    elif kind == "assign" and len(pl[1]) == 2 and pl[1][1] == fields[-1]:
                        vals.append(self.absval_rv(fn, pl[2], loc, depth + 1))
                    else:
                        return None
                return self.join_vals(vals)
            return None
        if any(e != "*" for e in p[1:]):
            return None
        l = p[0]
        if len(p) > 1:
            # deref of a reference local: follow what it points to / its def
            tg = fn.points_to(l)
            if len(tg) == 1:
                return self.absval_local(fn, next(iter(tg)), depth + 1)
            # reference obtained from a place (e.g. &self.tier): chase the def
            ds = fn.defs(l)
            if len(ds) == 1 and ds[0][1] == "assign" and ds[0][2][2][0] in ("ref",):
                return self.absval_place(fn, ds[0][2][2][1], depth + 1)
            return None
        return self.absval_local(fn, l, depth)

    def absval_local(self, fn, l, depth=0):
        if depth > 12:
            return None
        ds = fn.defs(l)
        if not ds:
            return None
        vals = []
        for loc, kind, pl in ds:
            if kind == "assign":
                if len(pl[1]) != 1:
                    return None
                v = self.absval_rv(fn, pl[2], loc, depth + 1)
            elif kind == "call":
                v = self.absval_call(fn, pl, depth + 1)
            else:
                return None
            if v is None:
                return None
            # strengthen with the path condition of the defining block
            g = self.guaranteed(fn, loc[0])
            if g:
                v = self.strengthen(v, g)
            vals.append(v)
        return self.join_vals(vals)

    def strengthen(self, v, g):
        if v[0] == "opt":
            return v
        if v[0] == "bool":
            return ("bool", TOP if v[1] is TOP else frozenset(v[1] | g))
        if v[0] == "nbool":
            return v
        if v[0] == "enum":
            return ("enum", {k: (TOP if s is TOP else frozenset(s | g)) for k, s in v[1].items()}, v[2])
        return v

    def join_vals(self, vals):
        if not vals or any(v is None for v in vals):
            return None
        real = [v for v in vals if v[0] != "opt"]
        if not real:
            return OPT
        vals = real
        kinds = {v[0] for v in vals}
        if kinds == {"bool"}:
            s = TOP
            for v in vals:
                s = meet(s, v[1])
            return ("bool", s)
        if kinds == {"enum"}:
            out = {}
            default = TOP
            # variant absent from a def => that def never produces it (TOP for that def)
            keys = set()
            for v in vals:
                keys |= set(v[1])
            for k in keys:
                s = TOP
                for v in vals:
                    s = meet(s, v[1].get(k, v[2]))
                out[k] = s
            for v in vals:
                default = meet(default, v[2])
            return ("enum", out, default)
        if len(vals) == 1:
            return vals[0]
        return None

    def absval_rv(self, fn, rv, loc, depth):
        k = rv[0]
        if k == "use":
            return self.absval_op(fn, rv[1], depth)
        if k == "un" and rv[1] == "Not":
            v = self.absval_op(fn, rv[2], depth)
            if v and v[0] == "opt":
                return v
            if v and v[0] == "bool":
                return ("nbool", v[1])
            if v and v[0] == "nbool":
                return ("bool", v[1])
            return None
        if k == "bin" and rv[1] in ("BitAnd", "BitOr"):
            a = self.absval_op(fn, rv[2], depth)
            b = self.absval_op(fn, rv[3], depth)
            if rv[1] == "BitAnd":
                sa = a[1] if a and a[0] == "bool" else frozenset()
                sb = b[1] if b and b[0] == "bool" else frozenset()
                if sa is TOP or sb is TOP:
                    return ("bool", TOP)
                return ("bool", frozenset(sa | sb))
            if a and b and a[0] == "bool" and b[0] == "bool":
                return ("bool", meet(a[1], b[1]))
            return None
        if k == "agg" and isinstance(rv[1], str) and rv[1].startswith("adt:"):
            path = rv[1][4:]
            adt, var = path.rsplit("::", 1)
            a = self.fx.adts.get(adt)
            if a and a["kind"] == "Enum":
                for i, v in enumerate(a["variants"]):
                    if v["name"] == var:
                        d = int(v["discr"]) if v["discr"] is not None else i
                        # this def yields exactly variant d: other variants never (TOP)
                        return ("enum", {d: frozenset()}, TOP)
            return None
        if k == "disc":
            return self.absval_place(fn, rv[1], depth)
        if k in ("ref",):
            return self.absval_place(fn, rv[1], depth)
        return None

    def absval_call(self, fn, c, depth):
        f = c["f"]
        root = detect_root(f)
        if root:
            return ("bool", frozenset(closure([root])))
        last = f.rsplit("::", 1)[-1]
        if last in ("clone", "deref", "borrow", "as_ref", "into", "from", "load") and c["a"]:
            return self.absval_op_deref(fn, c["a"][0], depth)
        if f == "<bool as std::default::Default>::default":
            return ("bool", TOP)
        if c["loc"]:
            return self.ret_val(f)
        return None

    def absval_op_deref(self, fn, op, depth):
        p = op_place(op)
        if p is None:
            return self.absval_op(fn, op, depth)
        if fn.ty(p[0]).startswith("&") and len(p) == 1:
            return self.absval_place(fn, p + ["*"], depth)
        return self.absval_place(fn, p, depth)

    # ---------- summaries
    def ret_val(self, fid):
        if fid in self.ret_memo:
            return self.ret_memo[fid]
        key = ("ret", fid)
        if key in self.inprog:
            return OPT  # optimistic on recursion (inductive reading)
        f = self.fn(fid)
        if f is None:
            self.ret_memo[fid] = None
            return None
        rt = f.ty(0)
        self.inprog.add(key)
        try:
            v = self.absval_local(f, 0)
        finally:
            self.inprog.discard(key)
        self.ret_memo[fid] = v
        return v

    def _index_field_writers(self):
        """field key 'Adt::field' -> [(fn id)] candidates, by raw substring scan"""
        self.field_writers = {}

    def field_val(self, fkey):
        """abstract value of a struct field = join over every crate-wide write"""
        if fkey in self.field_memo:
            return self.field_memo[fkey]
        key = ("field", fkey)
        if key in self.inprog:
            return OPT
        adt_path, fname = fkey.rsplit("::", 1)
        adt_name = adt_path.rsplit("::", 1)[-1]
        self.inprog.add(key)
        try:
            vals = []
            nwr = 0
            # candidate writer functions: mention the ADT name as aggregate or the field key
            cands = self.fx_grep(['adt:' + adt_path + '::', '.' + fkey + '"'])
            for fid in cands:
                f = self.fn(fid)
                if f is None:
                    continue
                for loc, st in f.iter_locs():
                    if st[0] != "a":
                        continue
                    dst, rv = st[1], st[2]
                    # aggregate construction of the struct
                    if rv[0] == "agg" and isinstance(rv[1], str) and rv[1].startswith("adt:") \
                            and rv[1][4:].rsplit("::", 1)[0] == adt_path and fname in rv[3]:
                        i = rv[3].index(fname)
                        v = self.absval_op(f, rv[2][i])
                        g = self.guaranteed(f, loc[0])
                        if v is not None and g:
                            v = self.strengthen(v, g)
                        vals.append(v)
                        nwr += 1
                    # direct store to the field
                    elif len(dst) > 1 and dst[-1] == "." + fkey:
                        v = self.absval_rv(f, rv, loc, 0)
                        g = self.guaranteed(f, loc[0])
                        if v is not None and g:
                            v = self.strengthen(v, g)
                        vals.append(v)
                        nwr += 1
            v = self.join_vals(vals) if vals else None
        finally:
            self.inprog.discard(key)
        self.field_memo[fkey] = v
        self.log.append(("field", fkey, nwr, self.show(v)))
        return v

    def fx_grep(self, needles):
        """function ids whose raw record contains any of the needles"""
        if not hasattr(self, "_raw"):
            with open(self.fx.path, "rb") as fh:
                self._raw = fh.read()
            self._lines = None
        out = set()
        data = self._raw
        for n in needles:
            nb = n.encode()
            pos = 0
            while True:
                i = data.find(nb, pos)
                if i < 0:
                    break
                ls = data.rfind(b"\n", 0, i) + 1
                le = data.find(b"\n", i)
                if le < 0:
                    le = len(data)
                if data[ls:ls + 2] == b"F\t":
                    hdr = data[ls:ls + 2000].split(b"\t", 3)
                    out.add(hdr[2].decode())
                pos = le + 1
        return out

    def show(self, v):
        if v is None:
            return "unknown"
        if v[0] == "opt":
            return "opt"
        if v[0] in ("bool", "nbool"):
            return "%s=>%s" % (v[0], "never" if v[1] is TOP else sorted(v[1]))
        if v[0] == "enum":
            return "enum{%s}" % ", ".join(
                "%s=>%s" % (k, "never" if s is TOP else sorted(s)) for k, s in sorted(v[1].items()))
        return str(v)

    # ---------- path conditions
    def implied_edges(self, fn):
        """edge -> feature set implied when the edge is taken (iterated: a guard value may
        itself depend on the path condition of the block that defines it, e.g. matches!)"""
        key = fn.id
        if key in self.guar_done:
            return self.guar_memo[key]
        if key in self.guar_memo:
            return self.guar_memo[key]      # in progress: use the previous round
        self.guar_memo[key] = {}
        for _ in range(4):
            edges = self._implied_edges_once(fn)
            if edges == self.guar_memo[key]:
                break
            self.guar_memo[key] = edges
        self.guar_done.add(key)
        return self.guar_memo[key]

    def _implied_edges_once(self, fn):
        edges = {}
        for b in fn.blocks():
            t = fn.term(b)
            if t[0] != "sw":
                continue
            v = self.absval_op(fn, t[1])
            if v is None:
                continue
            ev = fn.switch_edge_values(b)
            explicit = [int(x) for x, _ in t[2]]
            for tgt, vals in ev.items():
                s = None
                if v[0] == "opt":
                    continue
                if v[0] in ("bool", "nbool"):
                    true_edge = (1 in vals) or ("otherwise" in vals and 0 in explicit and 1 not in explicit)
                    false_edge = (0 in vals) or ("otherwise" in vals and 1 in explicit and 0 not in explicit)
                    if v[0] == "bool" and true_edge and not (0 in vals):
                        s = v[1]
                    if v[0] == "nbool" and false_edge and not (1 in vals):
                        s = v[1]
                elif v[0] == "enum":
                    ss = []
                    for x in vals:
                        if x == "otherwise":
                            rest = [s2 for k2, s2 in v[1].items() if k2 not in explicit]
                            ss.extend(rest)
                            ss.append(v[2])
                        else:
                            ss.append(v[1].get(x, v[2]))
                    s = TOP
                    for x in ss:
                        s = meet(s, x)
                    if s is not TOP and not s:
                        s = None
                if s is None:
                    continue
                if s is TOP:
                    edges[(b, tgt)] = "DEAD"
                elif s:
                    edges[(b, tgt)] = frozenset(s)
        return edges

    def guaranteed(self, fn, block):
        """features that hold on every path from entry to `block`"""
        edges = self.implied_edges(fn)
        if not edges:
            return frozenset()
        feats = set()
        for s in edges.values():
            if s != "DEAD":
                feats |= s
        dead = [e for e, s in edges.items() if s == "DEAD"]
        out = set()
        for f in feats:
            cut = [e for e, s in edges.items() if s != "DEAD" and f in s] + dead
            if block not in fn.reachable_from([0], avoid_edges=cut):
                out.add(f)
        return frozenset(out)


def run(ctx, fx, scope_files=None, label="R-TF"):
    """returns list of site dicts; records obligations/violations in ctx"""
    an = TfAnalysis(fx)
    tf = {i: set(r["tf"]) for i, r in fx.cg.items() if r["tf"]}
    # effective requirements of unsafe non-tf callers are propagated upwards
    eff = {i: set(s) for i, s in tf.items()}
    sites = []
    callers = [r for r in fx.cg_all if any(c[0] in tf for c in r["calls"])]
    changed = True
    rounds = 0
    results = {}
    while changed and rounds < 6:
        changed = False
        rounds += 1
        results = {}
        for r in fx.cg_all:
            if not any(c[0] in eff for c in r["calls"]):
                continue
            fn = an.fn(r["id"])
            if fn is None:
                continue
            own = closure(r["tf"])
            for b, c in fn.calls():
                if c["f"] not in eff:
                    continue
                need = closure(eff[c["f"]]) - own - BASELINE
                # only leaf requirements matter (closure members are implied by them)
                if not need:
                    results[(r["id"], b)] = (r, c, set(), set(), frozenset())
                    continue
                g = an.guaranteed(fn, b)
                missing = need - g
                results[(r["id"], b)] = (r, c, need, missing, g)
                if missing and (r["unsafe"] or r["vis"] != "pub"):
                    # contract delegated to the callers: an unsafe fn states it in its signature, a private
                    # safe wrapper has all of its call sites inside the crate, where they are checked
                    cur = eff.setdefault(r["id"], set())
                    if not missing <= closure(cur):
                        cur |= missing
                        changed = True
    nsites = 0
    for (fid, b), (r, c, need, missing, g) in sorted(results.items(), key=lambda kv: (kv[0][0], kv[0][1])):
        if scope_files is not None and r["file"] not in scope_files:
            continue
        nsites += 1
        ctx.analysed_fns.add(fid)
        callee_short = c["f"].rsplit("::", 1)[-1]
        ok = not missing or r["unsafe"] or r["vis"] != "pub"
        ctx.obligation(label, fid, callee_short, ok, nontrivial=bool(need),
                       sample={"caller": fid, "callee": c["f"], "needs": sorted(need),
                               "guaranteed_by_dominating_checks": sorted(g), "line": c["ln"]})
        if missing and not r["unsafe"] and r["vis"] == "pub":
            ctx.violation(label, fid, "call " + callee_short,
                          "call of #[target_feature] fn %s needs %s but only %s is guaranteed by dominating runtime checks"
                          % (c["f"], sorted(missing), sorted(g)), r["file"], c["ln"])
    ctx.instance(label + ".sites", nsites)
    ctx.instance(label + ".tf_fns", len(tf))
    # fallback path: dispatchers (safe, no tf) keep a path to return without any gated call
    ndisp = 0
    for r in fx.cg_all:
        if r["tf"] or r["unsafe"] or r["id"] in eff:
            continue        # kernels, unsafe fns and private wrappers that delegate the check are not dispatchers
        if scope_files is not None and r["file"] not in scope_files:
            continue
        if not any(c[0] in eff for c in r["calls"]):
            continue
        fn = an.fn(r["id"])
        gated = [b for b, c in fn.calls() if c["f"] in eff]
        if not gated:
            continue
        ndisp += 1
        reach = fn.reachable_from([0], avoid=gated)
        ok = any(e in reach for e in fn.exits())
        ctx.obligation(label + ".fallback", r["id"], "fallback", ok)
        if not ok:
            ctx.violation(label + ".fallback", r["id"], "no-ungated-path",
                          "every path to a return executes a feature-gated kernel (no portable fallback)",
                          r["file"], r["line"])
    ctx.instance(label + ".dispatchers", ndisp)
    ctx.extra.setdefault("tf_inferred_guards", [])
    ctx.extra["tf_inferred_guards"] = [list(x) for x in an.log][:60]
    ctx.extra["tf_unsafe_contracts"] = {k: sorted(v) for k, v in eff.items() if k not in tf}
    ctx.extra["tf_microarch_assumptions"] = MICROARCH_IMPLIES
    return an
