"""R-TRUNC: a variable-length integer decoder may only report success after it has seen a byte whose
continuation bit is clear.

decoder   : a function that tests `byte & 0x80` (directly or via ==/!= 0) and returns Result/Option
clear edge: the switch edge taken when the masked value is 0
rule      : with every clear edge removed, no block that builds Ok(..)/Some(..) for the return place is
            reachable from a block that masks a byte, nor (when the success value is not `()`) from the entry. An exit of the byte loop for any other reason (input exhausted,
            iteration limit) must therefore end in Err/None: a value cut off in the middle of its
            encoding is refused, not returned as a partial number.
"""
import re as _re

from vlib.mir import Fn, op_local, op_const, rv_operands
from rules.refusal import success_blocks


def _mask_locals(fn):
    """locals holding `x & 0x80`"""
    out = set()
    for loc, st in fn.iter_locs():
        if st[0] == "a" and st[2][0] == "bin" and st[2][1] == "BitAnd":
            for x, y in ((st[2][2], st[2][3]), (st[2][3], st[2][2])):
                c = op_const(y)
                if c is not None and c[0] == 128 and op_local(x) is not None and len(st[1]) == 1:
                    out.add(st[1][0])
    return out


def clear_edges(fn):
    """[(switch block, target block)] taken when (byte & 0x80) == 0"""
    masks = _mask_locals(fn)
    if not masks:
        return []
    # copies of the masked value
    changed = True
    while changed:
        changed = False
        for loc, st in fn.iter_locs():
            if st[0] == "a" and st[2][0] == "use" and len(st[1]) == 1 and op_local(st[2][1]) in masks \
                    and len(st[2][1][1]) == 1 and st[1][0] not in masks:
                masks.add(st[1][0])
                changed = True
    # booleans: eq0[l] = True if l == (mask == 0), False if l == (mask != 0)
    eq0 = {}
    for loc, st in fn.iter_locs():
        if st[0] == "a" and st[2][0] == "bin" and st[2][1] in ("Eq", "Ne") and len(st[1]) == 1:
            for x, y in ((st[2][2], st[2][3]), (st[2][3], st[2][2])):
                c = op_const(y)
                if c is not None and c[0] == 0 and op_local(x) in masks:
                    eq0[st[1][0]] = st[2][1] == "Eq"
    edges = []
    for b in fn.blocks():
        t = fn.term(b)
        if t[0] != "sw":
            continue
        l = op_local(t[1])
        if l is None:
            continue
        ev = fn.switch_edge_values(b)
        explicit = [int(v) for v, _ in t[2]]
        for tgt, vals in ev.items():
            if l in masks:
                # value 0 => clear
                if 0 in vals or ("otherwise" in vals and 0 not in explicit and explicit == [128]):
                    edges.append((b, tgt))
            elif l in eq0:
                want = 1 if eq0[l] else 0
                if want in vals or ("otherwise" in vals and want not in explicit and len(explicit) == 1):
                    edges.append((b, tgt))
    return edges


def check(ctx, fn, rule="R-TRUNC"):
    ce = clear_edges(fn)
    if not ce:
        return 0
    rt = fn.ty(0)
    if not (rt.startswith("std::result::Result<") or rt.startswith("std::option::Option<")):
        return 0
    succ = success_blocks(fn)
    if not succ:
        return 0
    ctx.analysed_fns.add(fn.id)
    cut = set(ce)
    # from every block that computes a mask; and from the entry when the success value is not `()`
    masks = _mask_locals(fn)
    starts = {b for (b, i), st in fn.iter_locs() if st[0] == "a" and len(st[1]) == 1 and st[1][0] in masks
              and st[2][0] == "bin" and st[2][1] == "BitAnd"}
    if not _re.match(r"^std::(result::Result|option::Option)<\(\)[,>]", rt):
        starts.add(0)
    seen = set(starts)
    work = list(starts)
    while work:
        b = work.pop()
        for s in fn.succ(b):
            if (b, s) in cut or s in seen:
                continue
            seen.add(s)
            work.append(s)
    bad = sorted(b for b in succ if b in seen)
    ok = not bad
    ctx.obligation(rule, fn.id, "success only after a terminating byte", ok,
                   sample={"fn": fn.id, "clear_edges": len(ce), "success_blocks": len(succ), "reachable_without_terminator": bad})
    if not ok:
        line = None
        for st in fn.stmts(bad[0]):
            if st[0] == "a":
                line = st[3]
        ctx.violation(rule, fn.id, "success reachable without a terminating byte",
                      "this variable-length decoder can build its Ok/Some result (bb%s) on a path that never took the "
                      "'continuation bit clear' edge: when the input ends inside the encoding the partial value is returned "
                      "as if complete" % bad, fn.file, line or fn.line)
    return 1
