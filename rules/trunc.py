"""R-TRUNC: a variable-length integer decoder may only report success after it has seen a byte whose
continuation bit is clear.

decoder   : a function that tests `byte & 0x80` (directly or via ==/!= 0) and returns Result/Option
clear edge: the switch edge taken when the masked value is 0
rule      : with every clear edge removed, no block that builds Ok(..)/Some(..) for the return place is
            reachable from a block that masks a byte, nor (when the success value is not `()`) from the entry. An exit of the byte loop for any other reason (input exhausted,
            iteration limit) must therefore end in Err/None: a value cut off in the middle of its
            encoding is refused, not returned as a partial number.
"""
import re as _re

from vlib.mir import Fn, op_local, op_const, rv_operands
from rules.refusal import success_blocks


def _mask_locals(fn):
    """locals holding `x & 0x80`"""
    out = set()
    for loc, st in fn.iter_locs():
        if st[0] == "a" and st[2][0] == "bin" and st[2][1] == "BitAnd":
            for x, y in ((st[2][2], st[2][3]), (st[2][3], st[2][2])):
                c = op_const(y)
                if c is not None and c[0] == 128 and op_local(x) is not None and len(st[1]) == 1:
                    out.add(st[1][0])
    return out


def clear_edges(fn):
    """[(switch block, target block)] taken when (byte & 0x80) == 0"""
    masks = _mask_locals(fn)
    if not masks:
        return []
    # copies of the masked value
    changed = True
    while changed:
        changed = False
        for loc, st in fn.iter_locs():
            if st[0] == "a" and st[2][0] == "use" and len(st[1]) == 1 and op_local(st[2][1]) in masks \
                    and len(st[2][1][1]) == 1 and st[1][0] not in masks:
                masks.add(st[1][0])
                changed = True
    # booleans: eq0[l] = True if l == (mask == 0), False if l == (mask != 0)
    eq0 = {}
    for loc, st in fn.iter_locs():
        if st[0] == "a" and st[2][0] == "bin" and st[2][1] in ("Eq", "Ne") and len(st[1]) == 1:
            for x, y in ((st[2][2], st[2][3]), (st[2][3], st[2][2])):
                c = op_const(y)
                if c is not None and c[0] == 0 and op_local(x) in masks:
                    eq0[st[1][0]] = st[2][1] == "Eq"
    edges = []
    for b in fn.blocks():
        t = fn.term(b)
        if t[0] != "sw":
            continue
        l = op_local(t[1])
        if l is None:
            continue
        ev = fn.switch_edge_values(b)
        explicit = [int(v) for v, _ in t[2]]
        for tgt, vals in ev.items():
            if l in masks:
                # value 0 => clear
                if 0 in vals or ("otherwise" in vals and 0 not in explicit and explicit == [128]):
                    edges.append((b, tgt))
            elif l in eq0:
                want = 1 if eq0[l] else 0
                if want in vals or ("otherwise" in vals and want not in explicit and len(explicit) == 1):
                    edges.append((b, tgt))
    return edges


def check(ctx, fn, rule="R-TRUNC"):
    ce = clear_edges(fn)
    if not ce:
        return 0
    rt = fn.ty(0)
    if not (rt.startswith("std::result::Result<") or rt.startswith("std::option::Option<")):
        return 0
    succ = success_blocks(fn)
    if not succ:
        return 0
    ctx.analysed_fns.add(fn.id)
    cut = set(ce)
    # from every block that computes a mask; and from the entry when the success value is not `()`
    masks = _mask_locals(fn)
    starts = {b for (b, i), st in fn.iter_locs() if st[0] == "a" and len(st[1]) == 1 and st[1][0] in masks
              and st[2][0] == "bin" and st[2][1] == "BitAnd"}
    if not _re.match(r"^std::(result::Result|option::Option)<\(\)[,>]", rt):
        starts.add(0)
    seen = set(starts)
    work = list(starts)
    while work:
        b = work.pop()
        for s in fn.succ(b):
            if (b, s) in cut or s in seen:
                continue
            seen.add(s)
            work.append(s)
    bad = sorted(b for b in succ if b in seen)
    ok = not bad
    ctx.obligation(rule, fn.id, "success only after a terminating byte", ok,
                   sample={"fn": fn.id, "clear_edges": len(ce), "success_blocks": len(succ), "reachable_without_terminator": bad})
    if not ok:
        line = None
        for st in fn.stmts(bad[0]):
            if st[0] == "a":
                line = st[3]
        ctx.violation(rule, fn.id, "success reachable without a terminating byte",
                      "this variable-length decoder can build its Ok/Some result (bb%s) on a path that never took the "
                      "'continuation bit clear' edge: when the input ends inside the encoding the partial value is returned "
                      "as if complete" % bad, fn.file, line or fn.line)
    return 1


# ------------------------------------------------------------------ R-VARINT.threshold
_MIRROR = {"Gt": "Lt", "Lt": "Gt", "Ge": "Le", "Le": "Ge"}
_WRONG = {("Gt", 128), ("Le", 128), ("Ge", 127), ("Lt", 127)}


def writer_threshold(ctx, fx, files, rule="R-VARINT.threshold", only=None):
    """a continuation-bit (LEB128) writer - a function that masks with 0x7F, sets 0x80 and shifts by 7 - decides "more
    bytes follow" by comparing the remaining value with the 7-bit limit. `value > 0x80` / `value >= 0x7F` (and their
    negations) are off by one: for a 7-bit group equal to the limit the last byte written carries the continuation bit
    (or a needless extra byte is cut), and the reader runs on into the following field."""
    n = 0
    for f in files:
        for fid in fx.fn_ids(f):
            if "::tests::" in fid or (only and not only(fid)):
                continue
            for k in range(fx.count(fid)):
                fn = Fn(fx.raw(fid, k))
                has_mask = has_or = False
                shifted = set()
                for loc, st in fn.iter_locs():
                    if st[0] != "a" or st[2][0] != "bin":
                        continue
                    opn, x, y = st[2][1], st[2][2], st[2][3]
                    cy = op_const(y)
                    if opn == "BitAnd" and cy is not None and cy[0] == 127:
                        has_mask = True
                    if opn == "BitOr" and ((cy is not None and cy[0] == 128) or (op_const(x) is not None and op_const(x)[0] == 128)):
                        has_or = True
                    if opn in ("Shr", "ShrUnchecked") and cy is not None and cy[0] == 7 and op_local(x) is not None:
                        shifted.add(op_local(x))
                        if len(st[1]) == 1:
                            shifted.add(st[1][0])
                if not (has_mask and has_or and shifted):
                    continue
                n += 1
                ctx.analysed_fns.add(fid)
                bad = None
                for loc, st in fn.iter_locs():
                    if st[0] != "a" or st[2][0] != "bin" or st[2][1] not in _MIRROR:
                        continue
                    opn, x, y = st[2][1], st[2][2], st[2][3]
                    if op_const(x) is not None and op_local(y) is not None:
                        opn, x, y = _MIRROR[opn], y, x
                    cy = op_const(y)
                    l = op_local(x)
                    if cy is None or l is None or cy[0] not in (127, 128):
                        continue
                    # the compared local is the shifted value or a plain copy of it
                    src = {l}
                    for d in fn.defs(l):
                        if d[1] == "assign" and d[2][2][0] == "use" and op_local(d[2][2][1]) is not None:
                            src.add(op_local(d[2][2][1]))
                    if src & shifted and (opn, cy[0]) in _WRONG:
                        bad = (opn, cy[0], st[3])
                ctx.obligation(rule, fid, "continuation decided at the 7-bit limit", bad is None,
                               sample={"fn": fid, "value_locals": sorted(fn.local_name(s) for s in shifted)[:3]})
                if bad:
                    ctx.violation(rule, fid, "continuation test %s %d" % (bad[0], bad[1]),
                                  "%s writes 7-bit groups with a continuation bit but tests the remaining value with %s %#x (line %d): "
                                  "a group equal to the limit is written as the last byte with its continuation bit set"
                                  % (fid.rsplit("::", 1)[-1], bad[0], bad[1], bad[2]), fn.file, bad[2])
    ctx.instance(rule + ".writers", n)
    return n
