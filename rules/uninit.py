"""R-UNINIT: no value of a type with validity requirements / a destructor is conjured from uninitialised memory.

site : `MaybeUninit::<U>::assume_init(x)` where x comes straight from `MaybeUninit::uninit()` (no write in between),
       `mem::uninitialized()`
rule : U is itself built from MaybeUninit (`[MaybeUninit<T>; N]`, the documented idiom) - otherwise an early return
       (`?` inside the fill loop) drops slots that were never written, and for element types that own memory the
       decoder frees garbage pointers instead of returning Err.
"""
import re

from vlib.mir import Fn, op_local


def run(ctx, fx, files=None, rule="R-UNINIT", only=None):
    n = 0
    for f in (files or fx.files()):
        for fid in fx.fn_ids(f):
            if "::tests::" in fid or (only and not only(fid)):
                continue
            for k in range(fx.count(fid)):
                fn = Fn(fx.raw(fid, k))
                for b, c in fn.calls():
                    bad = None
                    if c["f"].endswith("mem::uninitialized"):
                        bad = "mem::uninitialized()"
                    elif c["f"].endswith("::assume_init") and c["a"] and op_local(c["a"][0]) is not None:
                        x = op_local(c["a"][0])
                        fresh = any(d[1] == "call" and d[2]["f"].endswith("MaybeUninit::<T>::uninit") or
                                    (d[1] == "call" and re.search(r"MaybeUninit(::<[^>]*>)?::uninit$", d[2]["f"])) for d in fn.defs(x))
                        if not fresh:
                            continue
                        out_ty = fn.ty(c["d"][0])
                        if "MaybeUninit<" not in out_ty:
                            bad = "MaybeUninit::uninit().assume_init() of %s" % out_ty[:60]
                    else:
                        continue
                    n += 1
                    ctx.analysed_fns.add(fid)
                    ok = bad is None
                    ctx.obligation(rule, fid, "uninitialised storage stays wrapped in MaybeUninit", ok,
                                   sample={"fn": fid, "line": c["ln"], "result_type": fn.ty(c["d"][0])[:80]})
                    if not ok:
                        ctx.violation(rule, fid, "uninitialised value assumed initialised",
                                      "%s: %s (line %d) - any early return before every slot is written drops uninitialised "
                                      "elements (and the value is invalid from the start)" % (fid.rsplit("::", 1)[-1], bad, c["ln"]),
                                      fn.file, c["ln"])
    ctx.instance(rule + ".sites", n)
    return n
