"""R-VARIANT: every operation routes every variant of a strategy/storage enum to a back end of
the same strategy that consumes the operation's key; no variant is a stub.

For each operation (a function that switches on the discriminant of the storage field):
  per variant arm (blocks exclusive to the arm):
    stub-arm      : the arm neither reads the variant's payload nor uses the key parameter
    stub-backend  : the crate-local callee that receives the key never reads that parameter
    mismatch      : the callee's name carries the stem of a *different* variant
"""
import re

from vlib.mir import Fn, op_local, op_place, rv_operands


def snake(name):
    return re.sub(r"(?<!^)(?=[A-Z])", "_", name).lower()


def storage_switches(fn, field_suffix):
    """[(block, place, {variant_value: target}, otherwise)] for switches on disc(<..>.field)"""
    out = []
    for b in fn.blocks():
        t = fn.term(b)
        if t[0] != "sw":
            continue
        l = op_local(t[1])
        if l is None:
            continue
        ds = fn.defs(l)
        if len(ds) != 1 or ds[0][1] != "assign" or ds[0][2][2][0] != "disc":
            continue
        place = ds[0][2][2][1]
        flds = [e for e in place[1:] if isinstance(e, str) and e.startswith(".")]
        ok = bool(flds) and flds[-1].endswith(field_suffix)
        if not ok and not flds:
            # discriminant of a local that is a reference to the field
            base = place[0]
            for d in fn.defs(base):
                if d[1] == "assign" and d[2][2][0] in ("ref", "refmut"):
                    f2 = [e for e in d[2][2][1][1:] if isinstance(e, str) and e.startswith(".")]
                    if f2 and f2[-1].endswith(field_suffix):
                        ok = True
                        place = d[2][2][1]
        if ok:
            out.append((b, place, {int(v): tgt for v, tgt in t[2]}, t[3]))
    return out


def arm_region(fn, sw_block, target, other_targets):
    others = set()
    for o in other_targets:
        if o != target:
            others |= fn.reachable_from([o], avoid=[sw_block])
    return {x for x in fn.reachable_from([target], avoid=[sw_block]) if x not in others}


def region_facts(fn, region, key_locals):
    """(reads_payload, uses_key, local_callees[(callee, key_arg_index|None)], diverges)"""
    reads_payload = False
    uses_key = False
    callees = []
    diverges = False
    for b in region:
        for s in fn.stmts(b):
            if s[0] == "a":
                for o in rv_operands(s[2]):
                    p = op_place(o)
                    if p:
                        if any(isinstance(e, str) and e.startswith("@") for e in p[1:]):
                            reads_payload = True
                        if p[0] in key_locals:
                            uses_key = True
        t = fn.term(b)
        if t[0] == "call":
            c = t[1]
            ki = None
            for i, a in enumerate(c["a"]):
                p = op_place(a)
                if p:
                    if p[0] in key_locals:
                        uses_key = True
                        ki = i
                    if any(isinstance(e, str) and e.startswith("@") for e in p[1:]):
                        reads_payload = True
            if c["loc"]:
                callees.append((c["f"], ki))
            if "panicking::" in c["f"] or c["f"].endswith("::unimplemented") or c["f"].endswith("begin_panic"):
                diverges = True
    return reads_payload, uses_key, callees, diverges


def backend_reads_param(fx, callee, arg_index):
    rec = fx.raw(callee)
    if rec is None:
        return True
    cf = Fn(rec)
    p = arg_index + 1
    if p > cf.nargs:
        return True
    return bool(cf.reads(p))


def check_operation(ctx, fx, fn, enum_id, field_suffix, rule, key_params=None, require_key=True, panic_only=False):
    adt = fx.adts.get(enum_id)
    variants = {int(v["discr"]) if v["discr"] is not None else i: v["name"] for i, v in enumerate(adt["variants"])}
    stems = {d: snake(n) for d, n in variants.items()}
    sws = storage_switches(fn, field_suffix)
    if not sws:
        return 0
    if key_params is None:
        key_params = [i for i in range(2, fn.nargs + 1) if fn.ty(i).replace("&mut ", "&").startswith("&")
                      or fn.ty(i) in ("K", "V", "&Q")]
    key_locals = fn.forward_locals(key_params) if key_params else set()
    n = 0
    opname = fn.id.rsplit("::", 1)[-1]
    per_variant = {}
    for b, place, table, otherwise in sws:
        all_targets = set(table.values()) | {otherwise}
        for d, vname in sorted(variants.items()):
            tgt = table.get(d, otherwise)
            explicit = d in table
            region = arm_region(fn, b, tgt, all_targets)
            reads_payload, uses_key, callees, diverges = region_facts(fn, region, key_locals)
            problems = []
            if not explicit and not reads_payload and not (uses_key and key_params):
                problems.append(("stub-arm", "falls into a wildcard arm that ignores the storage%s"
                                 % (" and the key" if key_params else "")))
            elif explicit and not reads_payload and not uses_key:
                problems.append(("stub-arm", "arm ignores the variant's storage%s" % (" and the key" if key_params else "")))
            if panic_only:
                problems = []
            if diverges and not problems:
                problems.append(("stub-arm", "arm panics (unimplemented)"))
            hard = []
            for callee, ki in callees:
                cname = callee.rsplit("::", 1)[-1]
                other = [s2 for dd, s2 in stems.items() if dd != d and s2 in cname and stems[d] not in cname]
                if other and explicit:
                    hard.append(("mismatch", "routes to %s (stem of variant %s)" % (cname, other[0])))
                if ki is not None and not backend_reads_param(fx, callee, ki):
                    hard.append(("stub-backend", "back end %s never reads the key it is given" % cname))
            if panic_only:
                hard = []
            per_variant.setdefault(d, []).append(
                {"explicit": explicit, "reads": reads_payload, "uses_key": uses_key, "soft": problems, "hard": hard,
                 "backends": [c.rsplit("::", 1)[-1] for c, _ in callees][:4]})
    for d, vname in sorted(variants.items()):
        arms = per_variant.get(d, [])
        n += 1
        # the operation handles the variant if at least one of its switches has a working arm for it;
        # a back end that ignores the key, or a wrong-family callee, is a defect wherever it occurs
        hard = [h for a in arms for h in a["hard"]]
        soft_all = all(a["soft"] for a in arms)
        problems = hard[:1] or ([arms[0]["soft"][0]] if soft_all and arms else [])
        ok = not problems
        ctx.obligation(rule, fn.id, "%s/%s" % (opname, vname), ok,
                       sample={"operation": fn.id, "variant": vname,
                               "arms": [{k: a[k] for k in ("explicit", "reads", "uses_key", "backends")} for a in arms][:3]})
        for kind, msg in problems[:1]:
            ctx.violation(rule, fn.id, "%s: variant %s" % (kind, vname),
                          "operation %s on strategy %s: %s" % (opname, vname, msg), fn.file, fn.line)
    return n


def run(ctx, fx, file, enum_id, field_suffix, rule="R-VARIANT", only=None, key_param_filter=None, panic_only=False):
    n = 0
    ops = []
    for fid in fx.fn_ids(file):
        if "{closure" in fid or "::tests::" in fid:
            continue
        if only is not None and not only(fid):
            continue
        fn = Fn(fx.raw(fid))
        k = check_operation(ctx, fx, fn, enum_id, field_suffix, rule, panic_only=panic_only)
        if k:
            ops.append(fid)
            ctx.analysed_fns.add(fid)
        n += k
    ctx.instance(rule + ".operations", len(ops))
    ctx.instance(rule + ".arms", n)
    return ops
