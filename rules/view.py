"""R-VIEW: a (pointer, length) view may only be built with a length that was requested for that
pointer. For every struct that exposes `from_raw_parts(self.ptr, self.len)`, each construction
site must take `len` from a value that also went into the allocation call which produced `ptr`
(they share a source variable), or a refusing comparison of that value must dominate the site.
Constructors that merely copy their parameters into the struct are checked at their call sites."""
import re

from vlib.mir import Fn, op_local, op_place, op_const, rv_operands

PTR_TY = re.compile(r"NonNull<|\*mut |\*const ")


def view_structs(fx, files):
    """{adt id: (ptr field, len field)} discovered from from_raw_parts(self.P, self.L) uses"""
    out = {}
    for f in files:
        for fid in fx.fn_ids(f):
            if "::tests::" in fid:
                continue
            fn = Fn(fx.raw(fid))
            for b, c in fn.calls():
                if not re.search(r"slice::from_raw_parts(_mut)?$", c["f"]) or len(c["a"]) < 2:
                    continue
                lf = _field_of(fn, op_local(c["a"][1]))
                pf = _field_of(fn, op_local(c["a"][0]))
                if lf and pf and lf[0] == pf[0]:
                    out[lf[0]] = (pf[1], lf[1])
    return out


def _field_of(fn, l, depth=0):
    """(adt, field) if local l is loaded (through copies / as_ptr calls) from self.<field>"""
    if l is None or depth > 6:
        return None
    for d in fn.defs(l):
        if d[1] == "assign":
            for o in rv_operands(d[2][2]):
                p = op_place(o)
                if p:
                    flds = [e for e in p[1:] if isinstance(e, str) and e.startswith(".") and "::" in e]
                    if flds and p[0] == 1:
                        k = flds[-1][1:]
                        return (k.rsplit("::", 1)[0], k.rsplit("::", 1)[1])
                    if len(p) == 1:
                        r = _field_of(fn, p[0], depth + 1)
                        if r:
                            return r
        elif d[1] == "call" and d[2]["a"]:
            r = _field_of(fn, op_local(d[2]["a"][0]), depth + 1)
            if r:
                return r
    return None


def _only_param(fn, l):
    """index of the single parameter local l is a plain copy of, else None"""
    locs, sites = fn.backslice([l], max_nodes=30)
    params = [x for x in locs if 1 <= x <= fn.nargs]
    calls = [s for s in sites if s[1] in ("call", "mutarg")]
    if len(params) == 1 and not calls:
        return params[0]
    return None


def related(fn, len_local, ptr_local, block):
    """len shares a source with an argument of the call(s) that produced ptr, or is guarded"""
    selfl = {1} if fn.names.get(1) == "self" else set()
    A, _ = fn.backslice([len_local], max_nodes=200)
    A = A - selfl
    _, psites = fn.backslice([ptr_local], max_nodes=300)
    for loc, kind, pl in psites:
        if kind != "call":
            continue
        for a in pl["a"]:
            la = op_local(a)
            if la is None:
                continue
            # only size-like arguments count (integers, allocation layouts) - not the pool object
            if not re.search(r"^(&)?(usize|u32|u64|isize|std::alloc::Layout|core::alloc::Layout)$", fn.ty(la)):
                continue
            B, _ = fn.backslice([la], max_nodes=100)
            if (A & B) - selfl:
                return "shares a source with an argument of %s" % pl["f"].rsplit("::", 1)[-1]
    # a refusing comparison on an ancestor of len dominating the site
    for b in fn.blocks():
        t = fn.term(b)
        if t[0] != "sw" or not fn.dominates(b, block) or b == block:
            continue
        l = op_local(t[1])
        if l is None:
            continue
        C, sites = fn.backslice([l], max_nodes=60)
        if (C & A) and any(s[1] == "assign" and s[2][2][0] == "bin" and s[2][2][1] in ("Lt", "Le", "Gt", "Ge") for s in sites):
            if any(block not in fn.reachable_from([s], avoid=[b]) for s in fn.succ(b)):
                return "guarded by a comparison at bb%d" % b
    return None


def run(ctx, fx, files, rule="R-VIEW"):
    vs = view_structs(fx, files)
    ctx.instance(rule + ".view_structs", len(vs))
    fns = {}
    for f in files:
        for fid in fx.fn_ids(f):
            if "::tests::" not in fid:
                fns[fid] = None
    transparent = {}     # ctor fn id -> (adt, len param, ptr param)
    sites = 0
    pending = []
    for fid in fns:
        fn = Fn(fx.raw(fid))
        for (b, i), st in fn.iter_locs():
            if st[0] != "a" or st[2][0] != "agg" or not isinstance(st[2][1], str) or not st[2][1].startswith("adt:"):
                continue
            adt = st[2][1][4:].rsplit("::", 1)[0]
            if adt not in vs:
                continue
            pf, lf = vs[adt]
            names = st[2][3]
            if pf not in names or lf not in names:
                continue
            lo, po = st[2][2][names.index(lf)], st[2][2][names.index(pf)]
            ll, pl = op_local(lo), op_local(po)
            if ll is None or pl is None:
                continue      # constant length (e.g. empty view)
            lp, pp = _only_param(fn, ll), _only_param(fn, pl)
            if lp is not None and pp is not None:
                transparent[fid] = (adt, lp, pp)
                continue
            pending.append((fn, adt, ll, pl, b, st[3]))
    # call sites of transparent constructors
    for fid in fns:
        fn = None
        for c in fx.cg[fid]["calls"]:
            if c[0] in transparent:
                fn = fn or Fn(fx.raw(fid))
        if fn is None:
            continue
        for b, c in fn.calls():
            if c["f"] in transparent:
                adt, lp, pp = transparent[c["f"]]
                ll, pl = op_local(c["a"][lp - 1]), op_local(c["a"][pp - 1])
                if ll is None or pl is None:
                    continue
                pending.append((fn, adt, ll, pl, b, c["ln"]))
    for fn, adt, ll, pl, b, line in pending:
        sites += 1
        ctx.analysed_fns.add(fn.id)
        why = related(fn, ll, pl, b)
        ok = why is not None
        ctx.obligation(rule, fn.id, "%s view" % adt.rsplit("::", 1)[-1], ok,
                       sample={"site": fn.id, "struct": adt, "line": line, "length_operand": fn.local_name(ll),
                               "related_because": why})
        if not ok:
            ctx.violation(rule, fn.id, "%s built with unrelated length %s" % (adt.rsplit("::", 1)[-1], fn.local_name(ll)),
                          "%s is built with length %s, which neither went into the allocation that produced its pointer nor is "
                          "compared with the block's capacity: the view can extend past the block" %
                          (adt.rsplit("::", 1)[-1], fn.local_name(ll)), fn.file, line)
    ctx.instance(rule + ".sites", sites)
    return vs
