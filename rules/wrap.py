"""R-WRAP: ring-buffer cursors stay inside the buffer.

Every store to a cursor field (head / tail) of the ring type must be one of
  - a constant,
  - `x & mask` / `x % capacity` (the wrap itself),
  - a copy of another field of the same struct listed as bounded by construction (e.g. `len` right after the
    contents were linearised into a larger buffer).
A cursor advanced with a bare add (`tail += n`) can come to rest at `capacity`; the next single-element push then
writes one slot past the allocation.
"""
from vlib.mir import Fn, op_local, op_const, op_place


def run(ctx, fx, file, struct_path, cursors=("head", "tail"), bounded_fields=("len",), rule="R-WRAP"):
    n = 0
    for fid in fx.fn_ids(file):
        if "::tests::" in fid or "{closure" in fid:
            continue
        fn = Fn(fx.raw(fid))
        for (b, i), st in fn.iter_locs():
            if st[0] != "a" or len(st[1]) < 2 or not isinstance(st[1][-1], str):
                continue
            fld = st[1][-1]
            if not any(fld == ".%s::%s" % (struct_path, c) for c in cursors):
                continue
            n += 1
            ctx.analysed_fns.add(fid)
            rv = st[2]
            how = None
            if rv[0] == "bin" and rv[1] in ("BitAnd", "Rem"):
                how = rv[1]
            elif rv[0] == "use":
                if op_const(rv[1]) is not None:
                    how = "const"
                else:
                    l = op_local(rv[1])
                    p = op_place(rv[1])
                    if l is not None and p and len(p) == 1:
                        ds = fn.defs(l)
                        if ds and all(d[1] == "assign" and d[2][2][0] == "bin" and d[2][2][1] in ("BitAnd", "Rem") for d in ds):
                            how = "copy of wrapped value"
                        elif ds and all(d[1] == "assign" and d[2][2][0] == "use" and op_place(d[2][2][1]) and
                                        any(op_place(d[2][2][1])[-1] == ".%s::%s" % (struct_path, bf) for bf in bounded_fields)
                                        for d in ds):
                            how = "copy of bounded field"
            ok = how is not None
            ctx.obligation(rule, fid, "%s store@%s" % (fld.rsplit("::", 1)[-1], st[3]), ok,
                           sample={"fn": fid, "cursor": fld.rsplit("::", 1)[-1], "line": st[3], "form": how})
            if not ok:
                ctx.violation(rule, fid, "unwrapped store to %s" % fld.rsplit("::", 1)[-1],
                              "%s is assigned (line %s) a value that is neither masked with the ring mask, reduced modulo the "
                              "capacity, nor a constant: the cursor can rest at `capacity`, and the next push writes past the "
                              "buffer" % (fld.rsplit("::", 1)[-1], st[3]), fn.file, st[3])
    ctx.instance(rule + ".stores", n)
    return n


# ------------------------------------------------------------------ R-WRAP.pow2
def mask_needs_power_of_two(ctx, fx, files, rule="R-WRAP.pow2"):
    """`x & (capacity - 1)` equals `x % capacity` only for a power-of-two capacity. For every struct in the ring-buffer
    files: if one of its methods computes `_ & m` with m derived from `something - 1` (or a `*mask*` field / constant)
    in a function that also stores a cursor (a field or atomic named head / tail / read_pos / write_pos ...), then some
    method of the same struct establishes the power of two (`next_power_of_two`, `is_power_of_two`, a helper named
    *power_of_two*)."""
    import re as _re
    by_struct = {}
    for f in files:
        for fid in fx.fn_ids(f):
            if "::tests::" in fid or "{closure" in fid:
                continue
            st = (fx.raw(fid)["self_ty"] or "").split("<")[0]
            if st:
                by_struct.setdefault((f, st), []).append(fid)
    n = 0
    for (f, st), fids in sorted(by_struct.items()):
        masks = []
        pow2 = False
        for fid in fids:
            fn = Fn(fx.raw(fid))
            for b, c in fn.calls():
                if _re.search(r"power_of_two", c["f"]):
                    pow2 = True
            cursor_store = False
            for loc, s in fn.iter_locs():
                if s[0] == "a" and len(s[1]) > 1 and isinstance(s[1][-1], str) and _re.search(r"::(head|tail|read_pos|write_pos|front|back)$", s[1][-1]):
                    cursor_store = True
                elif s[0] == "call" and s[1]["f"].rsplit("::", 1)[-1] == "store" and s[1]["a"]:
                    l0 = op_local(s[1]["a"][0])
                    if l0 is not None:
                        for d in fn.defs(l0):
                            if d[1] == "assign" and d[2][2][0] in ("ref", "refmut") and \
                                    any(isinstance(e, str) and _re.search(r"::(head|tail|read_pos|write_pos|front|back)$", e) for e in d[2][2][1][1:]):
                                cursor_store = True
            if not cursor_store:
                continue
            for loc, s in fn.iter_locs():
                if s[0] == "a" and s[2][0] == "bin" and s[2][1] == "BitAnd":
                    for m in (s[2][2], s[2][3]):
                        lm = op_local(m)
                        km = op_const(m)
                        is_mask = False
                        if lm is not None:
                            locs, sites = fn.backslice([lm], max_nodes=25)
                            for _, kind, pl in sites:
                                if kind == "assign":
                                    rv = pl[2]
                                    if rv[0] == "bin" and rv[1] in ("Sub", "SubWithOverflow", "SubUnchecked") and op_const(rv[3]) is not None and op_const(rv[3])[0] == 1:
                                        is_mask = True
                                    for o in ([rv[1]] if rv[0] == "use" else []):
                                        p = op_place(o)
                                        if p and any(isinstance(e, str) and _re.search(r"mask", e, _re.I) for e in p[1:]):
                                            is_mask = True
                                elif kind == "call" and _re.search(r"wrapping_sub$|mask", pl["f"], _re.I):
                                    is_mask = True
                            if _re.search(r"MASK", fn.local_name(lm) or ""):
                                is_mask = True
                        elif km is not None and isinstance(m, list) and len(m) > 2 and isinstance(m[1], (str, type(None))) and m[1] is None:
                            # an unevaluated associated constant (`Self::INDEX_MASK`)
                            is_mask = True
                        if is_mask:
                            masks.append((fid, s[3]))
        if not masks:
            continue
        n += 1
        ctx.analysed_fns.add(masks[0][0])
        ctx.obligation(rule, st, "mask wrap backed by a power-of-two capacity", pow2,
                       sample={"struct": st, "mask_sites": masks[:3], "power_of_two_established": pow2})
        if not pow2:
            ctx.violation(rule, masks[0][0], "cursor wrapped with a mask, capacity never made a power of two",
                          "%s wraps a cursor with `& (n - 1)` (line %s) but no method of %s rounds the capacity to, or checks it for, a "
                          "power of two: for any other capacity the cursor skips slots and revisits others"
                          % (masks[0][0].rsplit("::", 1)[-1], masks[0][1], st.rsplit("::", 1)[-1]), fx.raw(masks[0][0])["file"], masks[0][1])
    ctx.instance(rule + ".structs", n)
    return n


# ------------------------------------------------------------------ R-CLEAR.cursors
def _const_cursor_stores(fn, struct_path, cursors):
    """[(loc, cursor, line)] of stores of a constant into a cursor field: plain assignment or Atomic::store(const)"""
    from rules.queue import field_of_receiver
    out = []
    for loc, st in fn.iter_locs():
        if st[0] == "a" and len(st[1]) >= 2 and isinstance(st[1][-1], str) and st[2][0] == "use" and op_const(st[2][1]) is not None:
            for c in cursors:
                if st[1][-1] == ".%s::%s" % (struct_path, c):
                    out.append((loc, c, st[3], True))
        elif st[0] == "a" and len(st[1]) >= 2 and isinstance(st[1][-1], str):
            for c in cursors:
                if st[1][-1] == ".%s::%s" % (struct_path, c):
                    out.append((loc, c, st[3], False))
        elif st[0] == "call" and st[1]["f"].endswith("::store") and "atomic" in st[1]["f"] and len(st[1]["a"]) >= 2:
            r = op_local(st[1]["a"][0])
            if r is None:
                continue
            for c in field_of_receiver(fn, r, struct_path) & set(cursors):
                out.append((loc, c, st[1]["ln"], op_const(st[1]["a"][1]) is not None))
    return out


def clear_resets_both_cursors(ctx, fx, file, struct_path, cursors=("head", "tail"), method="clear", rule="R-CLEAR.cursors"):
    """Where `clear` rewinds one ring cursor to a constant, the other cursor is stored as well - before it, or on every path
    from it to a normal return: head and tail are only meaningful as a pair (the next push writes at tail, the next pop reads at
    head), so a fast path that rewinds one of them leaves the ring pointing at the wrong slots."""
    n = 0
    for fid in fx.fn_ids(file):
        if "::tests::" in fid or "{closure" in fid or fid.rsplit("::", 1)[-1] != method:
            continue
        rec = fx.raw(fid)
        if not (rec.get("self_ty") or "").split("<")[0].endswith(struct_path):
            continue
        fn = Fn(rec)
        n += 1
        ctx.analysed_fns.add(fid)
        stores = _const_cursor_stores(fn, struct_path, cursors)
        exits = set(fn.exits())
        for loc, c, ln, is_const in stores:
            if not is_const:
                continue
            for other in cursors:
                if other == c:
                    continue
                ol = [s[0] for s in stores if s[1] == other]
                ok = any(fn.loc_dominates(o, loc) for o in ol)
                if not ok:
                    b, i = loc
                    same = any(ob == b and oi > i for ob, oi in ol)
                    ok = same or not (fn.reachable_from(fn.succ(b), avoid={ob for ob, _ in ol}) & exits) and b not in exits
                ctx.obligation(rule, fid, "%s rewound together with %s" % (other, c), ok,
                               sample={"fn": fid, "line": ln, "rewound": c, "companion": other, "companion_stores": len(ol)})
                if not ok:
                    ctx.violation(rule, fid, "%s rewound without %s" % (c, other),
                                  "clear() stores a constant into %s (line %s) on a path that never stores %s: the two cursors describe "
                                  "one ring, so the next push and the next pop address different slots than the ones the queue "
                                  "considers empty / occupied" % (c, ln, other), fn.file, ln)
    ctx.instance(rule + ".clears", n)
    return n
