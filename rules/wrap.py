"""R-WRAP: ring-buffer cursors stay inside the buffer.

Every store to a cursor field (head / tail) of the ring type must be one of
  - a constant,
  - `x & mask` / `x % capacity` (the wrap itself),
  - a copy of another field of the same struct listed as bounded by construction (e.g. `len` right after the
    contents were linearised into a larger buffer).
A cursor advanced with a bare add (`tail += n`) can come to rest at `capacity`; the next single-element push then
writes one slot past the allocation.
"""
from vlib.mir import Fn, op_local, op_const, op_place


def run(ctx, fx, file, struct_path, cursors=("head", "tail"), bounded_fields=("len",), rule="R-WRAP"):
    n = 0
    for fid in fx.fn_ids(file):
        if "::tests::" in fid or "{closure" in fid:
            continue
        fn = Fn(fx.raw(fid))
        for (b, i), st in fn.iter_locs():
            if st[0] != "a" or len(st[1]) < 2 or not isinstance(st[1][-1], str):
                continue
            fld = st[1][-1]
            if not any(fld == ".%s::%s" % (struct_path, c) for c in cursors):
                continue
            n += 1
            ctx.analysed_fns.add(fid)
            rv = st[2]
            how = None
            if rv[0] == "bin" and rv[1] in ("BitAnd", "Rem"):
                how = rv[1]
            elif rv[0] == "use":
                if op_const(rv[1]) is not None:
                    how = "const"
                else:
                    l = op_local(rv[1])
                    p = op_place(rv[1])
                    if l is not None and p and len(p) == 1:
                        ds = fn.defs(l)
                        if ds and all(d[1] == "assign" and d[2][2][0] == "bin" and d[2][2][1] in ("BitAnd", "Rem") for d in ds):
                            how = "copy of wrapped value"
                        elif ds and all(d[1] == "assign" and d[2][2][0] == "use" and op_place(d[2][2][1]) and
                                        any(op_place(d[2][2][1])[-1] == ".%s::%s" % (struct_path, bf) for bf in bounded_fields)
                                        for d in ds):
                            how = "copy of bounded field"
            ok = how is not None
            ctx.obligation(rule, fid, "%s store@%s" % (fld.rsplit("::", 1)[-1], st[3]), ok,
                           sample={"fn": fid, "cursor": fld.rsplit("::", 1)[-1], "line": st[3], "form": how})
            if not ok:
                ctx.violation(rule, fid, "unwrapped store to %s" % fld.rsplit("::", 1)[-1],
                              "%s is assigned (line %s) a value that is neither masked with the ring mask, reduced modulo the "
                              "capacity, nor a constant: the cursor can rest at `capacity`, and the next push writes past the "
                              "buffer" % (fld.rsplit("::", 1)[-1], st[3]), fn.file, st[3])
    ctx.instance(rule + ".stores", n)
    return n
