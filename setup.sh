#!/bin/sh
# builds the fact extractor (offline) ; checks rebuild facts from /repo on every run
set -e
cd "$(dirname "$0")"
exec python3 ./check --setup
