#!/usr/bin/env python3
"""Runs the repository's own suite (cargo test --workspace --no-fail-fast --offline) in a scratch worktree of /repo HEAD
and reports every test of /root/.vp/BASELINE.json's stable_pass list that failed or did not run.
usage: tools/baseline_check.py <worktree> <target-dir> [logfile]"""
import json, re, subprocess, sys, os
wt, target = sys.argv[1], sys.argv[2]
log = sys.argv[3] if len(sys.argv) > 3 else "/tmp/baseline_run.log"
env = dict(os.environ, CARGO_TARGET_DIR=target, CARGO_NET_OFFLINE="true", RUST_BACKTRACE="0")
if os.environ.get("PARSE_ONLY") != "1":
  with open(log, "w") as fh:
    subprocess.run(["cargo", "test", "--workspace", "--no-fail-fast", "--offline", "--", "--test-threads", "8"], cwd=wt, env=env, stdout=fh, stderr=subprocess.STDOUT)
base = json.load(open("/root/.vp/BASELINE.json"))
stable = set(base["stable_pass"])
cur = None
res = {}
for line in open(log, errors="replace"):
    m = re.match(r"\s+Running (?:unittests )?(\S+) \(", line)
    if m:
        p = m.group(1)
        cur = "zipora" if p.endswith("src/lib.rs") else "zipora::" + os.path.basename(p)[:-3]
        continue
    if re.match(r"\s+Doc-tests", line):
        cur = None
    m = re.match(r"test (\S+)(?: - should panic)? \.\.\. (\w+)", line)
    if m and cur:
        res[cur + "::" + m.group(1)] = m.group(2)
bad = sorted(t for t in stable if res.get(t) != "ok")
print("stable_pass tests:", len(stable), "seen ok:", sum(1 for t in stable if res.get(t) == "ok"))
for t in bad:
    print("NOT OK:", t, res.get(t, "not run"))
sys.exit(1 if bad else 0)
