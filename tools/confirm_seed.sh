#!/bin/sh
# usage: tools/confirm_seed.sh <seed dir with patch.diff+demo.rs> <name> <lib-test-filter>
# confirms in the scratch worktree /tmp/zw: demo passes without the patch, fails with it, module unit tests pass with it
set -u
D=$1; NAME=$2; FILTER=$3
cd /tmp/zw || exit 2
git checkout -q -f --detach main && git clean -fdq tests
cp "$D/demo.rs" tests/seed_$NAME.rs
export CARGO_TARGET_DIR=/tmp/zw-target CARGO_NET_OFFLINE=true RUST_BACKTRACE=0
echo "--- without patch"
timeout 3000 cargo test --offline --test seed_$NAME 2>&1 | grep -aE "^test result|^error" | tail -2
git apply "$D/patch.diff" || { echo "PATCH DOES NOT APPLY"; exit 1; }
echo "--- with patch"
timeout 3000 cargo test --offline --test seed_$NAME 2>&1 | grep -aE "^test result|^error" | tail -2
echo "--- module unit tests with patch ($FILTER)"
timeout 3000 cargo test --offline --lib -- $FILTER 2>&1 | grep -aE "^test result|FAILED" | tail -3
git checkout -q -f --detach main && git clean -fdq tests
