#!/usr/bin/env python3
"""Regenerates /verif/MANIFEST.json from the table below (single source of truth)."""
import json
import os

HERE = os.path.dirname(os.path.dirname(os.path.abspath(__file__)))
props = [json.loads(l) for l in open(os.path.join(HERE, "properties.jsonl"))]

# pid -> (technique, level text, level note, design ref)
CLAIMED = {
    "C14": ("MIR dominator/path-condition analysis of #[target_feature] call sites with crate-wide who-may-write "
            "inference of feature flags and tier enums (R-TF); who-may-call rule on signed 8-bit lane comparisons in compare "
            "kernels with bias-idiom recognition (R-SIGNED); no implicit-length PCMPISTR* on byte slices and no narrowing of 64-lane "
            "masks (R-LANES); movemask restricted to the filled lanes of a zero-padded scratch array (R-PADMASK); pointer-identity fast "
            "paths also compare lengths (R-IDENTITY)",
            "static rules over all MIR bodies: decide the dispatch-soundness clause (kernels entered only under an "
            "implying runtime feature check; portable fallback exists) for every call site in the crate; it does not "
            "decide that kernels compute the scalar function; plus: no cmp/compare kernel orders bytes with an unbiased "
            "signed lane comparison",
            "two structural clauses of C14; trusted: rustc MIR, extractor, x86 implication tables, crate-internal writers of "
            "pub flag fields (external code constructing flag structs by hand is out of scope)",
            "DESIGN.md section 4 C14, section 3 R-TF"),
}
CLAIMED["C18"] = (
    "compile-fail witness (E0382) + MIR producer/consumer coverage of task queues (R-QUEUE) + must-move path analysis of "
    "popped Box<dyn Task> values (R-LINEAR.task) + examined-Result rule for refusing task sinks (R-SINK) + who-may-call "
    "rule on completion-ordered combinators in sequence-returning APIs (R-SEQ) + dead-error analysis of Result matches (R-ERRDEAD) + increment/decrement pairing on all paths (R-INFLIGHT) + lock-order graph of "
    "the stealing queues (R-LOCKORDER) + no lock-guarded accumulator in spawned closures (R-SEQ.shared) + no flatten over task Results (R-FLATTEN)",
    "static rules over MIR and a type-level witness: decide that executing a task consumes it, that every queue the "
    "owner can fill is drained on the owner's own path (single-worker liveness), that a task taken out of a queue is "
    "run/returned/re-queued on every path, that a refused task is noticed, that Vec-returning APIs do not collect in "
    "completion order, and that no stage/item error is swallowed in pipeline.rs/fiber_pool.rs",
    "six structural clauses of C18; exactly-once under stealing interleavings, idle detection and result "
    "values are not decided; trusted: rustc type checker + MIR, extractor, rule tables",
    "DESIGN.md section 4 C18")
CLAIMED["C16"] = (
    "MIR atomic check-then-act detection (R-ATOM), lock-guard liveness coverage of named atomic operations "
    "(R-LOCKCOV), raw-owner-pointer escape analysis (R-OWN), commit-before-check with undo on the refusing path (R-COMMIT, through deciding helpers), RMW-only updates of the live-token counters (R-COUNT.rmw) and compile-fail witnesses",
    "static rules over MIR plus borrow-checker witnesses: the writer-exclusivity decision is a single RMW; version "
    "assignment, live-count increment and threshold advance happen under token_chain_mutex; tokens are (not) tied to "
    "their manager",
    "three structural clauses of C16; quiescent counts and lazy-free-list age arithmetic are not decided; trusted: "
    "rustc MIR + borrow checker, extractor, the (function, atomic, lock) table in props/C16.py",
    "DESIGN.md section 4 C16")
CLAIMED["C05"] = (
    "MIR variant-routing coverage (R-VARIANT): arms of every switch on the storage enum, key consumption by back ends, "
    "stem agreement; strategy->storage mapping; who-may-write on num_keys; loop-exit analysis of the Patricia pruning loop (R-PRUNE); "
    "observer/signature agreement on DAWG state flags (R-SIGNATURE)",
    "static rule over MIR: for every trie operation named by the property and every TrieStorage variant, the arm must read "
    "the variant's storage or use the key, the back end must read the key and belong to the same strategy family",
    "three clauses of C05 (per-strategy routing, no stub strategy; removal's unlink loop stops at final nodes; DAWG minimisation keys cover every flag lookups read); value-level trie algorithms are not decided; unimplemented "
    "strategies present in the tree are listed as known findings with failing demonstrations",
    "DESIGN.md section 4 C05, section 3 R-VARIANT")
CLAIMED["C06"] = (
    "MIR must-pass-through-sanitiser analysis for the in-band occupancy marker (R-TAINT-S, sentinels and sanitiser inferred "
    "structurally, incl. enumerators) + probe-past-tombstone path rule (R-PROBE) + sibling agreement of hash-to-slot reduction "
    "(R-SIBLING.index) + parallel-vector reshape agreement incl. whole-element replacement (R-PARALLEL), per-iteration push when the companion vector is rebuilt (R-PARALLEL.build), deleted-count increments covered by a deleted-marker store (R-MARKCOUNT) + clear() completeness over collection fields (R-CLEAR) + "
    "variant-routing coverage (R-VARIANT) + movemask restricted to the filled lanes of a zero-padded scratch array (R-PADMASK)",
    "static rules over MIR: a hash from Hasher::finish cannot reach a store into / comparison with HashEntry.hash without "
    "passing a function that tests every sentinel; every map operation x HashMapStorage variant reaches a back end that "
    "reads the key",
    "five structural clauses of C06 (sentinel sanitisation; insertion never settles on a deleted slot before the probe path is "
    "exhausted; all hash-to-slot reductions agree; entries/hash_cache reshaped alike; per-strategy routing); probe-sequence values, "
    "resize contents and iteration order are value-level and not decided",
    "DESIGN.md section 4 C06, section 3 R-TAINT-S / R-VARIANT")
CLAIMED["C15"] = (
    "interprocedural MIR taint analysis (untrusted buffers / integers with source sites, flow-sensitive reaching "
    "definitions, callee summaries, type-based struct-field registry) with dominating-guard discharge: R-ALLOC, R-GUARD, R-PANIC, "
    "R-DIV (zero-test before an untrusted divisor), R-ARITH.mul (unchecked multiplication feeding a bound check, through helpers); "
    "CFG cut rule for variable-length integer decoders (R-TRUNC); divisors read from zero-writable fields (R-DIV field form); "
    "call-graph cycle rule with depth-budget recognition (R-RECURSE); who-may-call rule on assume_init of uninitialised non-MaybeUninit types (R-UNINIT); "
    "narrow Iterator::sum over decoder-supplied tables in the call-graph closure of the entry points (R-ARITH.sum); byte-offset str slices (R-STRSLICE)",
    "static rule over the closure of ~200 parser entry points: every allocation size, bounds-checked index, slice range, "
    "unsafe pointer/length operand and unwrap that derives from untrusted bytes must be dominated by a deciding comparison "
    "against a trusted bound (refusing on the large side), clamped by a trusted value, or narrow by type",
    "seven structural clauses of C15; guard shape is checked, guard arithmetic is not; loop termination and bomb "
    "amplification are not decided; container contents are tracked only through insert/push of scalars and named struct fields",
    "DESIGN.md section 4 C15, section 3 R-GUARD/R-ALLOC")
CLAIMED["C19"] = (
    "MIR must-precede / must-pass-through analysis over resolved callees (R-ORDER), open-time size-guard rule (R-GUARD.open) "
    "and the taint analysis with header fields as untrusted integers (incl. R-ARITH.mul); CFG cut rule for var_uint readers (R-TRUNC); "
    "who-may-call rule on Drop for MmapVec (R-ORDER.drop); continuation threshold of the var_uint writer (R-VARINT.threshold); "
    "length check after take(n).read_to_end (R-TAKEEXACT); truncation of freshly created backing files (R-CREATE.truncate); partial flush followed by clear (R-FLUSHWHOLE)",
    "static rules: growth persists capacity only after File::set_len and remap; writers sync before returning Ok; "
    "MmapVec::open compares the header's capacity with the file length before Ok; loaders never size or index from header "
    "fields unchecked",
    "three structural clauses of C19; which sync point a torn file reopens to and content equality are not decided; the "
    "(function, event A, event B) table is frozen in props/C19.py",
    "DESIGN.md section 4 C19, section 3 R-ORDER")
CLAIMED["C13"] = (
    "MIR layout-event agreement between writers and readers (R-PAIR, strong projection), per-marker arm agreement for constant "
    "one-byte presence/kind markers (R-PAIR.marker), inverse dispatch tables (R-VARIANT.inverse) and flush-before-seek ordering of the "
    "buffering writer (R-ORDER); continuation threshold of LEB128 writers (R-VARINT.threshold); interprocedural "
    "use-of-count rule for partial writes (R-PARTIALWRITE); clamped-count provenance of element loops (R-CLAMPLOOP); chunks_exact tail handling in bulk conversions (R-REMAINDER)",
    "static rules over MIR: every DataOutput::write_K x DataInput::read_K implementor pair and every serialize/deserialize "
    "pair of the io files must produce the same sequence of multi-byte integer widths+endianness, primitive kinds and nested "
    "(de)serialisations; each VarIntStrategy variant must decode with the helper family it encodes with",
    "format-agreement clauses of C13; value round trips, SIMD/scalar byte identity and buffered refill behaviour are not decided",
    "DESIGN.md section 4 C13, section 3 R-PAIR")
for _pid, _what, _extra_t, _extra_w in (
        ("C04", "select1/select0 refuse k >= count; positions checked before unchecked word access",
         "; who-writes rule on BitVector.len / .blocks in shrinking methods (R-SHRINK); last-word mask rule (R-TAILMASK); ownership-flow rule for caller-supplied raw words (R-RAWWORDS: moved on only behind a tail mask)",
         "; BitVector's pop/resize/clear clear the storage they vacate (whole-word popcounts rely on it)"),
        ("C09", "indexed accessors of the compressed integer containers refuse reads past the end",
         "; chunks_exact tail-handling rule (R-REMAINDER); no refusing range check on an already narrowed value (R-NARROWCHECK); "
         "dominating refusing comparison on every value handed to a fixed-width packer of the SortedUintVec builder (R-WIDTHCHECK); neighbour location of the pair accessor (R-PAIRACCESS); no strided scan in whole-sequence predicates (R-SAMPLE)",
         "; no chunked scan of the values ignores its remainder; block base and delta are refused when wider than their configured width"),
        ("C10", "index parameters are guarded before unchecked access; push/pop examine fullness/emptiness before touching a slot",
         "; wrapped-cursor store rule (R-WRAP), empty-by-construction range rule (R-EMPTYRANGE), sync-before-remap ordering (R-ORDER), "
         "clear() completeness (R-CLEAR), paired rewind of the ring cursors in clear() (R-CLEAR.cursors), bulk-vs-single effect agreement (R-SIBLING.batch), end-derived-from-start of bump ranges (R-RANGE.dep), power-of-two backing of mask wraps (R-WRAP.pow2), full-width comparison before a usize parameter is "
         "narrowed (R-NARROWIDX), length kept in step with raw writes from a user iterator (R-PANICSAFE.len)",
         "; ring cursors are only stored wrapped; drop loops of shrinking operations are not empty by construction; MmapVec "
         "writes its mapping back before re-reading the file")):
    CLAIMED[_pid] = (
        "MIR dominating-guard analysis in refusal form (parameter taint with struct fields as trusted state; state tests before raw effects)" + _extra_t,
        "static rules over MIR deciding the refusal clause: " + _what + _extra_w,
        "structural clauses only; the numeric / sequence-equality substance of the property is value-level and explicitly not decided",
        "DESIGN.md section 4 %s, section 3 R-GUARD (refusal form), section 10.5" % _pid)
CLAIMED["C01"] = (
    "MIR lookup-miss discipline on encode paths (R-MISS, incl. truncating clamps), model/framing layout agreement (R-PAIR) and "
    "sibling agreement of the single-stream fallback test between encoder and decoder (R-SIBLING.fallback), "
    "verified-prefix rule for match-extension loops of the dictionary coders (R-MATCHVERIFY), no lock-guarded accumulator in "
    "parallel block encoders (R-SEQ.shared)",
    "static rules over MIR: the miss edge of every code lookup on an encode path must reach Err / a fallback lookup before the "
    "next iteration or a normal return (all-zero table entries count as the unset marker); serialize/deserialize pairs of the "
    "entropy models agree on widths and order",
    "three structural clauses of C01; prefix-freeness, normalisation arithmetic, chunk boundaries, renormalisation and the round trip are not decided",
    "DESIGN.md section 4 C01, section 3 R-MISS / R-PAIR")
CLAIMED["C02"] = (
    "MIR layout-event agreement per match-type arm at byte and bit level (R-PAIR), tag->variant tables, store/load path symmetry "
    "with devirtualisation of dyn fields by who-may-write (R-SYM), tag/payload-kind correlation over framing sites (R-TAGKIND), "
    "cleared-before-use analysis of scratch vectors up the private call chain with loop membership (R-SCRATCH), continuation threshold "
    "of LEB128 size-field writers (R-VARINT.threshold), def-use provenance of decompression bounds (R-CAPSRC), no lock-guarded accumulator in parallel closures (R-SEQ.shared)",
    "static rules over MIR: per CompressionType arm the writer's operand layout equals the reader's; tag k decodes to the variant "
    "with discriminant k; every compress path (incl. raw fallback) has an inverse path in decompress for every impl Compressor and "
    "the hybrid / real-time front ends",
    "structural clauses of C02; match finding, suffix-array matcher, codec correctness and the round trip itself are not decided; "
    "selection stability of AdaptiveCompressor after set_algorithm is not covered (demonstrated in demos/rt, see DESIGN 10.4)",
    "DESIGN.md section 4 C02, section 3 R-PAIR / R-SYM")
CLAIMED["C03"] = (
    "MIR store/load path symmetry for every wrapper impl BlobStore and the DictZip entropy stage (R-SYM with codec-family stems), "
    "content flow of persistent fields (R-FLOW), header layout agreement (R-PAIR), batch-vs-single effect agreement (R-SIBLING.batch), "
    "wrapper delegation to the inner store (R-DELEGATE), field restoration in derive-generated deserialisers (R-FLOW.serde), "
    "flag/payload-kind correlation over gated record construction sites (R-TAGKIND.record), def-use provenance of decompression bounds "
    "(R-CAPSRC), neighbour location of the pair accessor (R-PAIRACCESS), size_hint provenance (R-HINT), stable-sort "
    "who-may-call on the trie-store builder (R-STABLE), collected-fields-read-on-finish for bulk builders (R-FLOW.builder)",
    "static rules over MIR: what put applies get inverts on every put path; save/load carry the content of every persistent field; "
    "header writer and reader agree",
    "three structural clauses of C03; id allocation, len/contains/size bookkeeping, offset arithmetic and bitmap logic are not decided",
    "DESIGN.md section 4 C03, section 3 R-SYM / R-FLOW")
CLAIMED["C08"] = (
    "MIR analysis of compare-exchange pops on intrusive free lists (R-ABA: version tag or live lock; single head snapshot), tag advance "
    "and relink-inside-the-retry-loop on push, atomic check-then-act and load/modify/store (R-ATOM), check-then-act across two "
    "critical sections of one lock (R-LOCKSPLIT), no access through a block pointer after its release call (R-RELEASE), "
    "un-track-before-publish ordering in the secure pool (R-ORDER.untrack)",
    "static rule over MIR: every CAS whose new value is read through the loaded head must carry a +1 version tag derived from the "
    "loaded word (directly or in a crate-local helper) or run under a live lock guard; tagged lists advance the tag on every CAS",
    "one structural clause of C08 (free structures stay well formed under pre-emption between head load and CAS); linearizability, "
    "exactly-once hand-over and counter totals need schedule enumeration and are not decided",
    "DESIGN.md section 4 C08, section 3 R-ABA")
CLAIMED["C17"] = (
    "MIR must-pass-through / who-may-call analysis of the eviction path (R-ORDER/R-FLOW), lock-order graph with read/write modes "
    "(R-LOCKORDER), recency refresh on every entry access (R-TOUCH), index-lock coverage of list operations (R-LOCKCOV.lru), clear() "
    "completeness (R-CLEAR), no eviction before an in-place update (R-ORDER.evict), must-pass-through refresh of CacheBuffer's cached "
    "(pointer, length) view after every reshaping of its Vec (R-CACHEDVIEW), who-may-call purity of the LruMap observers (R-PURE: contains_key/len/is_empty/capacity reach no recency-list mutation) and routing purity of the shard selector",
    "static rules over MIR: evict_lru invokes the callback exactly once on the entry it unlinks and only when the map is full; the "
    "locks of LruMap are acquired in one order; the shard for a key depends on the key and on no thread id / counter / clock",
    "structural clauses of C17; LRU order values, the capacity bound, page-cache byte equality and staleness after invalidation are "
    "value/history-level and not decided (two such defects were found by probing and fixed, see DESIGN 10.3)",
    "DESIGN.md section 4 C17, section 3 R-ORDER / R-FLOW")
CLAIMED["C07"] = (
    "MIR taint/bit-width analysis of capacity guards (R-ARITH/R-GUARD), class-size provenance (R-CLASS), raw-owner-pointer escape + "
    "compile-fail witnesses (R-OWN), must-consume analysis (R-LINEAR), who-may-drop-an-arena (R-ARENA), commit-before-check on atomic "
    "cursors (R-COMMIT), relink-inside-retry-loop on CAS pushes (R-ABA.relink), capacity/request consistency of recycled mmap regions "
    "(R-VIEW), refusal test on the carve cursor (R-GUARD.cursor), upper-bound comparison in pointer validators (R-GUARD.region), "
    "end-derived-from-start of bump ranges (R-RANGE.dep), check-then-act across two critical sections (R-LOCKSPLIT), no access through a block pointer after its release call (R-RELEASE)",
    "static rules over MIR and borrow-checker witnesses: a capacity check cannot be wrapped by the request size; a block is carved at "
    "the size of the class it is filed under; RAII guards are tied to their pool; a freed chunk is always handed back; a live arena is "
    "never freed by an allocation path",
    "five structural clauses of C07; disjointness and content retention themselves, alignment arithmetic and double-free detection "
    "logic are value-level and not decided",
    "DESIGN.md section 4 C07")
NA = {
    "C11": "sortedness/permutation/multiset equality of loops over data for all inputs and configurations is value-level; no structural clause is a necessary condition short of the result itself",
    "C12": "lexicographic order of all suffixes, exact LCP and search ranges are value-level for every construction algorithm",
    "C20": "byte-wise eq/ord/hash coherence, comparator totality and iterator completeness are value-level (hash coherence reduces to SIMD-tier equivalence)",
}

checks = []
na = []
for p in props:
    pid = p["id"]
    if pid in CLAIMED and os.path.exists(os.path.join(HERE, "props", pid + ".py")):
        tech, text, note, ref = CLAIMED[pid]
        # the clause count grew with the rules added later: the authoritative list is DESIGN.md 10.5 / 10.9
        import re as _re
        note = _re.sub(r"^(one|two|three|four|five|six|seven) structural clauses? of", "structural clauses of", note)
        note = _re.sub(r"^(two|three) clauses of", "structural clauses of", note)
        if "10.5" not in ref:
            ref += ", sections 10.5 and 10.9 (rules added later, rules per check)"
        note += " The clauses decided are exactly the rules named under `technique`; each is a necessary condition of the property, none is the property."
        checks.append({
            "property_id": pid,
            "quick_cmd": "./check %s --tier quick" % pid,
            "thorough_cmd": "./check %s --tier thorough" % pid,
            "evidence_file": "/verif/evidence/%s.json" % pid,
            "replay_cmd_template": "cat {path}",
            "engine": "zfacts+rules",
            "level_claimed": {"category": "other", "text": text, "design_ref": ref},
            "level_note": note,
            "technique": "static analysis: " + tech,
        })
    else:
        na.append({"property_id": pid,
                   "reason": NA.get(pid, "static check not built yet (planned rule in DESIGN.md section 4); not claimed until it lands")})

m = {
    "version": 1,
    "setup_cmd": "./setup.sh",
    "hooks": {
        "guard": "zipora_verif",
        "enable": "no hook is compiled into /repo: the checks read /repo's source through a rustc_private MIR extractor",
        "baseline_off_cmd": "cd /repo && cargo test --workspace --no-fail-fast --offline",
        "source_commits": [],
        "add_only": True,
    },
    "engines": [
        {"name": "zfacts", "path": "/verif/driver", "serves_properties": sorted(CLAIMED),
         "kind_free_text": "rustc_private driver (nightly) dumping post-borrowck MIR, ADTs and impls of /repo as JSON facts"},
        {"name": "rules", "path": "/verif/rules", "serves_properties": sorted(CLAIMED),
         "kind_free_text": "Python rule engine over the facts: CFG, dominators, def-use, call graph, per-rule instance tables"},
    ],
    "checks": checks,
    "notes": "Technique family: static analysis only. See DESIGN.md. Exit 2 + BROKEN-MACHINERY line = the checker failed closed (not a property verdict).",
    "not_applicable": na,
}
json.dump(m, open(os.path.join(HERE, "MANIFEST.json"), "w"), indent=1)
print("claimed:", [c["property_id"] for c in checks])
