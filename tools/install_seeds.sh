#!/bin/sh
# usage: tools/install_seeds.sh <PID> <lib-test-filter> [checks...]
# copies /tmp/seed_<pid>_out/<i>/{patch.diff,demo.rs,notes.txt} to seeded/<PID>-<i>/ and confirms each in /tmp/zw
PID=$1; FILTER=$2; shift 2
CHECKS=${*:-$PID}
low=$(echo $PID | tr 'A-Z' 'a-z')
cd "$(dirname "$0")/.." || exit 2
R=${ROUND:-}
for d in /tmp/seed${R}_${low}_out/[0-9]*; do
  i=$(basename $d)
  [ -f $d/patch.diff ] || continue
  if [ -n "$R" ]; then dst=$(pwd)/seeded/$PID-r$R-$i; else dst=$(pwd)/seeded/$PID-$i; fi
  mkdir -p $dst
  cp $d/patch.diff $d/demo.rs $dst/ 2>/dev/null
  [ -f $d/notes.txt ] && cp $d/notes.txt $dst/
  echo "=== $PID-${R:+r$R-}$i"
  tools/confirm_seed.sh $dst ${low}${R}_$i "$FILTER" > $dst/confirm.log 2>&1
  cat $dst/confirm.log | grep -v "^WARNING"
  python3 - "$dst" "$PID" $CHECKS <<'PY'
import json,sys,os
dst,pid=sys.argv[1],sys.argv[2]; checks=sys.argv[3:]
log=open(os.path.join(dst,'confirm.log')).read()
meta={"property":pid,"checks":checks,"origin":"independent sub-agent given only the property text",
      "confirmed":"tools/confirm_seed.sh (log in confirm.log): demo on the unchanged tree / with the patch / module unit tests with the patch; the sub-agent ran the full lib suite (notes.txt)"}
json.dump(meta,open(os.path.join(dst,'meta.json'),'w'),indent=1)
PY
done
