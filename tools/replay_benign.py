#!/usr/bin/env python3
"""Applies every behaviour-preserving refactoring under seeded/benign/*.diff to /repo (one at a time), runs ALL quick
checks and records anything other than exit 0 (a VIOLATION or a BROKEN-MACHINERY on such a patch is a false alarm)."""
import json, os, subprocess, sys, glob
HERE = os.path.dirname(os.path.dirname(os.path.abspath(__file__)))
def sh(c, **k): return subprocess.run(c, shell=True, capture_output=True, text=True, **k)
if sh("git -C /repo status --porcelain -- src Cargo.toml build.rs").stdout.strip():
    print("refusing: /repo has local changes"); sys.exit(2)
pids = [c["property_id"] for c in json.load(open(os.path.join(HERE, "MANIFEST.json")))["checks"]]
only = sys.argv[1:]
# BENIGN_CHECKS=C17,C05 restricts the replay to the checks whose rules changed; results are merged into RESULTS.json
sub = [c for c in os.environ.get("BENIGN_CHECKS", "").split(",") if c]
if sub:
    pids = [p for p in pids if p in sub]
RES = os.path.join(HERE, "seeded", "benign", "RESULTS.json")
out = json.load(open(RES)) if (sub or only) and os.path.exists(RES) else {}
for p in sorted(glob.glob(os.path.join(HERE, "seeded", "benign", "*.diff"))):
    name = os.path.basename(p)[:-5]
    if only and not any(name.startswith(o) for o in only): continue
    r = sh("git -C /repo apply %s" % p)
    if r.returncode != 0:
        out[name] = {"error": r.stderr[-200:]}; sh("git -C /repo checkout -- ."); print(name, "DOES NOT APPLY"); continue
    bad = {}
    try:
        for pid in pids:
            rr = sh("./check %s --tier quick" % pid, cwd=HERE)
            if rr.returncode != 0:
                bad[pid] = [l[:260] for l in rr.stdout.splitlines() if l.startswith("  ") or l.startswith("BROKEN") or l.startswith("VIOLATION")][:6]
    finally:
        sh("git -C /repo checkout -- .")
    if sub:
        prev = dict(out.get(name, {}).get("alarms", {}))
        for pid in pids:
            prev.pop(pid, None)
        prev.update(bad)
        bad = prev
    out[name] = {"alarms": bad}
    print(name, "clean" if not bad else "ALARM " + json.dumps(bad)[:400])
    sys.stdout.flush()
json.dump(out, open(RES, "w"), indent=1)
for pid in pids: sh("./check %s --tier quick" % pid, cwd=HERE)
