#!/usr/bin/env python3
"""Apply every seeded change under /verif/seeded/<id>/patch.diff to /repo (one at a time), run the
check of the property it breaks, record whether a VIOLATION is raised, and undo the change.
Usage: tools/replay_seeded.py [id-prefix ...]"""
import json
import os
import subprocess
import sys
import time

HERE = os.path.dirname(os.path.dirname(os.path.abspath(__file__)))
REPO = "/repo"


def sh(cmd, **kw):
    return subprocess.run(cmd, shell=True, capture_output=True, text=True, **kw)


def main():
    only = sys.argv[1:]
    st = sh("git -C %s status --porcelain -- src Cargo.toml build.rs" % REPO).stdout.strip()
    if st:
        print("refusing: /repo has local changes:\n" + st)
        return 2
    out = {}
    sd = os.path.join(HERE, "seeded")
    for d in sorted(os.listdir(sd)):
        p = os.path.join(sd, d)
        if not os.path.isdir(p) or not os.path.exists(os.path.join(p, "patch.diff")):
            continue
        if only and not any(d.startswith(o) for o in only):
            continue
        meta = json.load(open(os.path.join(p, "meta.json")))
        pid = meta["property"]
        checks = meta.get("checks", [pid])
        r = sh("git -C %s apply %s" % (REPO, os.path.join(p, "patch.diff")))
        if r.returncode != 0:
            out[d] = {"property": pid, "error": "patch does not apply: " + r.stderr[-300:]}
            sh("git -C %s checkout -- ." % REPO)
            continue
        res = {"property": pid, "caught_by": [], "reports": []}
        try:
            for c in checks:
                t0 = time.time()
                rr = sh("./check %s --tier quick" % c, cwd=HERE)
                viol = [l for l in rr.stdout.splitlines() if l.startswith("VIOLATION")]
                rep = [l.strip()[:300] for l in rr.stdout.splitlines() if l.startswith("  ")]
                broken = [l for l in rr.stdout.splitlines() if l.startswith("BROKEN-MACHINERY")]
                if viol:
                    res["caught_by"].append(c)
                    res["reports"] += rep[:4]
                if broken:
                    res.setdefault("broken", []).append(broken[0][:200])
                res.setdefault("wall_s", {})[c] = round(time.time() - t0, 1)
        finally:
            sh("git -C %s checkout -- ." % REPO)
        out[d] = res
        print("%-28s %-4s %s" % (d, pid, "CAUGHT by " + ",".join(res["caught_by"]) if res["caught_by"] else "missed"
                                 + (" (BROKEN: %s)" % res["broken"][0] if res.get("broken") else "")))
    # restore evidence of the unchanged tree for the checks we disturbed
    prev = {}
    rp = os.path.join(sd, "RESULTS.json")
    if os.path.exists(rp):
        prev = json.load(open(rp))
    prev.update(out)
    json.dump(prev, open(rp, "w"), indent=1)
    touched = sorted({c for v in out.values() for c in ([v["property"]] if "error" not in v else [])})
    for c in touched:
        sh("./check %s --tier quick" % c, cwd=HERE)
    return 0


if __name__ == "__main__":
    sys.exit(main())
