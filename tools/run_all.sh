#!/bin/sh
# runs every claimed check (quick tier by default) and prints one line per property; exit 1 if any is not exit 0
cd "$(dirname "$0")/.." || exit 2
TIER=${1:-quick}
rc=0
for p in $(python3 -c "import json;print(' '.join(c['property_id'] for c in json.load(open('MANIFEST.json'))['checks']))"); do
  out=$(./check $p --tier $TIER 2>&1); e=$?
  echo "$out" | grep -E "^summary|^BROKEN|^VIOLATION" | cut -c1-170 | sed "s/^/[exit $e] /"
  [ $e -ne 0 ] && rc=1
done
exit $rc
