#!/usr/bin/env python3
"""prints a markdown table of the seeded changes matching a prefix filter, with the result recorded in seeded/RESULTS.json"""
import json, os, re, sys
HERE = os.path.dirname(os.path.dirname(os.path.abspath(__file__)))
res = json.load(open(os.path.join(HERE, "seeded", "RESULTS.json")))
flt = sys.argv[1] if len(sys.argv) > 1 else ""
print("| seed | change | result |\n|------|--------|--------|")
for d in sorted(os.listdir(os.path.join(HERE, "seeded"))):
    p = os.path.join(HERE, "seeded", d)
    if not os.path.isdir(p) or flt not in d or not os.path.exists(os.path.join(p, "patch.diff")):
        continue
    title = ""
    np_ = os.path.join(p, "notes.txt")
    if os.path.exists(np_):
        for line in open(np_, errors="replace"):
            line = line.strip()
            if len(line) > 15:
                title = re.sub(r"^(SEED|Seed|seed|CHANGE|Change)\s*\S*\s*[/#:-]*\s*\d*\s*[-:–]*\s*", "", line)[:150]
                break
    r = res.get(d, {})
    out = ("caught by " + ", ".join(r["caught_by"]) + " (" + "; ".join(sorted({re.search(r"\[(R-[^\]]+|W\d+)\]", x).group(1) for x in r.get("reports", []) if re.search(r"\[(R-[^\]]+|W\d+)\]", x)})) + ")") if r.get("caught_by") else "**missed**"
    print("| %s | %s | %s |" % (d, title.replace("|", "/"), out))
