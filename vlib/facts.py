"""E1 front end: (re)extract MIR facts from /repo's working tree and load them.

Facts are content-addressed by a hash of the repository sources, so two checks run on
the same tree share one extraction, and any edit of /repo forces a new one.
"""
import fcntl
import glob
import hashlib
import json
import os
import shutil
import subprocess
import sys
import time

VERIF = os.path.dirname(os.path.dirname(os.path.abspath(__file__)))
REPO = os.environ.get("VERIF_REPO", "/repo")
CACHE = os.path.join(VERIF, ".cache")
DRIVER_DIR = os.path.join(VERIF, "driver")
DRIVER = os.path.join(DRIVER_DIR, "target", "release", "zfacts")

CONFIGS = {
    # name -> cargo feature arguments
    "default": [],
    # "--no-default-features" does not compile on the pinned tree (58 errors), so it cannot be analysed
    "lz4": ["--features", "lz4"],
    "avx512": ["--features", "avx512,nightly"],
}

_sysroot = None


def sysroot():
    global _sysroot
    if _sysroot is None:
        _sysroot = subprocess.check_output(
            ["rustc", "+nightly", "--print", "sysroot"], text=True
        ).strip()
    return _sysroot


def base_env():
    env = dict(os.environ)
    env["CARGO_NET_OFFLINE"] = "true"
    env["LD_LIBRARY_PATH"] = os.path.join(sysroot(), "lib") + ":" + env.get("LD_LIBRARY_PATH", "")
    env.pop("RUSTC_WRAPPER", None)
    return env


def tree_hash(repo=None):
    """sha256 over every file that can influence the lib build."""
    repo = repo or REPO
    h = hashlib.sha256()
    paths = []
    for root, dirs, files in os.walk(os.path.join(repo, "src")):
        dirs.sort()
        for f in sorted(files):
            paths.append(os.path.join(root, f))
    for f in ("Cargo.toml", "Cargo.lock", "build.rs"):
        p = os.path.join(repo, f)
        if os.path.exists(p):
            paths.append(p)
    for p in paths:
        h.update(os.path.relpath(p, repo).encode())
        h.update(b"\0")
        with open(p, "rb") as fh:
            h.update(fh.read())
        h.update(b"\0")
    # the driver itself is part of the key
    with open(os.path.join(DRIVER_DIR, "src", "main.rs"), "rb") as fh:
        h.update(fh.read())
    return h.hexdigest()[:24]


def build_driver():
    src = os.path.join(DRIVER_DIR, "src", "main.rs")
    if os.path.exists(DRIVER) and os.path.getmtime(DRIVER) >= os.path.getmtime(src):
        return
    r = subprocess.run(
        ["cargo", "build", "--release", "--offline"],
        cwd=DRIVER_DIR, env=base_env(), capture_output=True, text=True,
    )
    if r.returncode != 0 or not os.path.exists(DRIVER):
        sys.stderr.write(r.stderr[-4000:])
        raise SystemExit("BROKEN-MACHINERY: cannot build the fact extractor")


class _Lock:
    def __init__(self, name):
        os.makedirs(CACHE, exist_ok=True)
        self.path = os.path.join(CACHE, name + ".lock")

    def __enter__(self):
        self.fh = open(self.path, "w")
        fcntl.flock(self.fh, fcntl.LOCK_EX)
        return self

    def __exit__(self, *a):
        fcntl.flock(self.fh, fcntl.LOCK_UN)
        self.fh.close()


def _prune(cfgdir, keep=3):
    ds = [d for d in glob.glob(os.path.join(cfgdir, "*")) if os.path.isdir(d)]
    ds.sort(key=os.path.getmtime, reverse=True)
    for d in ds[keep:]:
        shutil.rmtree(d, ignore_errors=True)


def extract(config="default", repo=None, crate="zipora", extra_flags=None, tag=None):
    """Returns (facts_path, rmeta_path, info). Rebuilds when the tree hash is new."""
    repo = repo or REPO
    feats = CONFIGS[config] if extra_flags is None else extra_flags
    with _Lock("extract"):
        build_driver()
        th = tree_hash(repo)
        cfgdir = os.path.join(CACHE, "facts", tag or config)
        outdir = os.path.join(cfgdir, th)
        facts = os.path.join(outdir, crate + ".facts")
        rmeta = os.path.join(outdir, "lib%s.rmeta" % crate)
        info_p = os.path.join(outdir, "info.json")
        if os.path.exists(facts) and os.path.exists(rmeta) and os.path.exists(info_p):
            os.utime(outdir, None)
            info = json.load(open(info_p))
            info["reused"] = True
            return facts, rmeta, info
        shutil.rmtree(outdir, ignore_errors=True)
        os.makedirs(outdir)
        target = os.path.join(CACHE, "target")
        os.makedirs(target, exist_ok=True)
        # cargo's freshness cache would silently skip the wrapper
        for fp in glob.glob(os.path.join(target, "debug", ".fingerprint", crate + "-*")):
            shutil.rmtree(fp, ignore_errors=True)
        env = base_env()
        env["RUSTFLAGS"] = "-Zmir-opt-level=0 -Awarnings"
        env["RUSTC_WORKSPACE_WRAPPER"] = DRIVER
        env["ZFACTS_OUT"] = outdir
        env["ZFACTS_CRATES"] = crate
        env["ZFACTS_TAG"] = config
        env["CARGO_TARGET_DIR"] = target
        t0 = time.time()
        cmd = ["cargo", "+nightly", "check", "--offline", "--lib", "--message-format=json"] + feats
        r = subprocess.run(cmd, cwd=repo, env=env, capture_output=True, text=True)
        art = None
        for line in r.stdout.splitlines():
            if not line.startswith("{"):
                continue
            try:
                m = json.loads(line)
            except ValueError:
                continue
            if m.get("reason") == "compiler-artifact" and m.get("target", {}).get("name") == crate \
                    and "custom-build" not in m.get("target", {}).get("kind", []):
                for f in m.get("filenames", []):
                    if f.endswith(".rmeta"):
                        art = f
        if r.returncode != 0 or not os.path.exists(facts) or art is None:
            sys.stderr.write(r.stderr[-6000:])
            shutil.rmtree(outdir, ignore_errors=True)
            raise SystemExit(
                "BROKEN-MACHINERY: fact extraction failed for config %s (cargo exit %s)" % (config, r.returncode)
            )
        shutil.copy(art, rmeta)
        info = {"config": config, "tree_hash": th, "extract_s": round(time.time() - t0, 1),
                "deps_dir": os.path.join(target, "debug", "deps"), "reused": False}
        json.dump(info, open(info_p, "w"))
        _prune(cfgdir)
        return facts, rmeta, info


class Facts:
    """Lazy loader of a .facts file."""

    def __init__(self, path):
        self.path = path
        self.meta = None
        self._fn_off = {}      # id -> [offset]
        self._file_fns = {}    # file -> [id]
        self.cg = {}           # id -> record (first)
        self.cg_all = []       # all records
        self.adts = {}
        self.impls = []
        self.statics = {}
        self._cache = {}
        with open(path, "rb") as fh:
            off = 0
            for raw in fh:
                k = raw[:1]
                if k == b"F":
                    p = raw.split(b"\t", 3)
                    fid = p[2].decode()
                    self._fn_off.setdefault(fid, []).append(off)
                    self._file_fns.setdefault(p[1].decode(), []).append(fid)
                elif k == b"G":
                    p = raw.split(b"\t", 3)
                    rec = json.loads(p[3])
                    self.cg.setdefault(rec["id"], rec)
                    self.cg_all.append(rec)
                elif k == b"A":
                    rec = json.loads(raw.split(b"\t", 3)[3])
                    self.adts.setdefault(rec["id"], rec)
                elif k == b"I":
                    self.impls.append(json.loads(raw.split(b"\t", 3)[3]))
                elif k == b"S":
                    rec = json.loads(raw.split(b"\t", 3)[3])
                    self.statics[rec["id"]] = rec
                elif k == b"M":
                    self.meta = json.loads(raw.split(b"\t", 3)[3])
                off += len(raw)
        self._fh = open(path, "rb")

    def files(self):
        return sorted(self._file_fns)

    def fn_ids(self, file=None):
        if file is None:
            return list(self._fn_off)
        return list(dict.fromkeys(self._file_fns.get(file, [])))

    def has(self, fid):
        return fid in self._fn_off

    def raw(self, fid, n=0):
        key = (fid, n)
        if key not in self._cache:
            offs = self._fn_off.get(fid)
            if not offs or n >= len(offs):
                return None
            self._fh.seek(offs[n])
            line = self._fh.readline()
            self._cache[key] = json.loads(line.split(b"\t", 3)[3])
        return self._cache[key]

    def count(self, fid):
        return len(self._fn_off.get(fid, []))

    def find(self, suffix, file=None):
        """ids ending with `suffix` (optionally restricted to a file)."""
        ids = self.fn_ids(file) if file else self._fn_off.keys()
        return [i for i in ids if i.endswith(suffix)]

    def adt_by_name(self, name):
        return [a for i, a in self.adts.items() if i == name or i.endswith("::" + name)]
