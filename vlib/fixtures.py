"""Rule fixtures: every rule must fire on its violating fixture and stay silent on the conforming one.
Run on every check (about 1 s); a failure makes the check fail closed (BROKEN-MACHINERY)."""
import glob
import hashlib
import os
import re
import shutil
import subprocess

from . import facts as F
from .mir import Fn
from .run import Ctx

FIX = os.path.join(F.VERIF, "fixtures")


def fixture_facts():
    h = hashlib.sha256()
    for p in (os.path.join(FIX, "src", "lib.rs"), os.path.join(FIX, "Cargo.toml"), os.path.join(F.DRIVER_DIR, "src", "main.rs")):
        h.update(open(p, "rb").read())
    key = h.hexdigest()[:20]
    out = os.path.join(F.CACHE, "facts", "fixtures", key)
    fp = os.path.join(out, "zfixtures.facts")
    with F._Lock("fixtures"):
        if not os.path.exists(fp):
            F.build_driver()
            shutil.rmtree(os.path.join(F.CACHE, "facts", "fixtures"), ignore_errors=True)
            os.makedirs(out)
            target = os.path.join(F.CACHE, "fixtures_target")
            for d in glob.glob(os.path.join(target, "debug", ".fingerprint", "zfixtures-*")):
                shutil.rmtree(d, ignore_errors=True)
            env = F.base_env()
            env["RUSTFLAGS"] = "-Zmir-opt-level=0 -Awarnings"
            env["RUSTC_WORKSPACE_WRAPPER"] = F.DRIVER
            env["ZFACTS_OUT"] = out
            env["ZFACTS_CRATES"] = "zfixtures"
            env["CARGO_TARGET_DIR"] = target
            r = subprocess.run(["cargo", "+nightly", "check", "--offline", "--lib"], cwd=FIX, env=env,
                               capture_output=True, text=True)
            if r.returncode != 0 or not os.path.exists(fp):
                raise SystemExit("BROKEN-MACHINERY: fixtures crate does not build: " + r.stderr[-1500:])
    return F.Facts(fp)


def _fires(ctx2, fn_suffix):
    return any(v["fn"].endswith(fn_suffix) or fn_suffix in v["fn"] for v in ctx2.violations)


def run(ctx, rules):
    """rules: iterable of fixture names; records ctx.fixture_results[name] = bool"""
    fx = fixture_facts()
    for name in rules:
        try:
            ok = globals()["fx_" + name](fx)
        except Exception as e:      # a crashing rule is a broken rule
            ok = False
            ctx.note("fixture %s raised %r" % (name, e))
        ctx.fixture_results["fixture:" + name] = bool(ok)


def _ctx():
    return Ctx("fixture", "quick", 0)


def fx_tf(fx):
    from rules import tf
    c = _ctx()
    tf.run(c, fx)
    return _fires(c, "tf::bad_dispatch") and not _fires(c, "tf::ok_dispatch")


def fx_errdead(fx):
    from rules import errdead
    c = _ctx()
    errdead.run(c, fx, ["src/lib.rs"])
    return _fires(c, "errdead::bad_swallow") and _fires(c, "errdead::bad_discard") and not _fires(c, "errdead::ok_propagate")


def fx_atom(fx):
    from rules import sync
    c = _ctx()
    for fid in fx.fn_ids("src/lib.rs"):
        if "::sync::" in fid or fid.startswith("sync::"):
            sync.check_then_act(c, Fn(fx.raw(fid)))
    return _fires(c, "Gate::bad_acquire") and not _fires(c, "Gate::ok_acquire")


def fx_lockcov(fx):
    from rules import sync
    c = _ctx()
    for nm in ("bad_count", "ok_count"):
        fn = Fn(fx.raw("sync::Gate::" + nm))
        sync.lockcov(c, fn, "Gate::lock", "::live", ("fetch_add",), only_reachable_from=("::version", ("fetch_add",)))
    return _fires(c, "Gate::bad_count") and not _fires(c, "Gate::ok_count")


def fx_aba(fx):
    from rules import sync
    c = _ctx()
    for fid in ("sync::Stack::bad_pop", "sync::Tagged::ok_pop", "sync::Tagged::ok_pop_helper", "sync::Tagged::bad_pop_helper"):
        sync.aba(c, Fn(fx.raw(fid)), fx=fx)
    return _fires(c, "Stack::bad_pop") and not _fires(c, "Tagged::ok_pop") and not _fires(c, "Tagged::ok_pop_helper") \
        and _fires(c, "Tagged::bad_pop_helper")


def fx_taint(fx):
    from rules import taint
    c = _ctx()
    cl = taint.new_closure(fx)
    for fid in fx.fn_ids("src/lib.rs"):
        if fid.startswith("taint::"):
            cl.seed_entry(fid)
    for fid, (fn, ft) in cl.run().items():
        taint.check_sinks(c, fn, ft, "")
    return (_fires(c, "taint::bad_decode_alloc") and not _fires(c, "taint::ok_decode_alloc")
            and _fires(c, "taint::bad_decode_slice") and not _fires(c, "taint::ok_decode_slice"))


def fx_order(fx):
    from rules import order
    c = _ctx()
    for nm in ("ok_put", "bad_put"):
        fn = Fn(fx.raw("order::" + nm))
        order.then_before_ok(c, fn, r"write_all$", r"fs::File::sync_all$", "R-ORDER", "sync before Ok")
    return _fires(c, "order::bad_put") and not _fires(c, "order::ok_put")


def fx_pair(fx):
    from rules import pair
    c = _ctx()
    w = Fn(fx.raw("pair::write"))
    wa = pair.arm_sequences(fx, w, ["Kind"], "w")
    res = {}
    for nm in ("ok_read", "bad_read"):
        r = Fn(fx.raw("pair::" + nm))
        ra = pair.arm_sequences(fx, r, ["Kind"], "r")
        c2 = _ctx()
        for v in wa:
            if v in ra:
                pair.compare(c2, "R-PAIR", "%s/%s" % (nm, v), w, wa[v][0], r, ra[v][0])
        res[nm] = len(c2.violations)
    return res["bad_read"] == 1 and res["ok_read"] == 0


def fx_variant(fx):
    from rules import variant
    c = _ctx()
    variant.run(c, fx, "src/lib.rs", "variant::Storage", "Set::storage")
    keys = [v["key"] for v in c.violations]
    return any("bad_insert" in k and "stub-backend" in k for k in keys) and any("bad_remove" in k and "stub-arm" in k for k in keys) \
        and not any("ok_insert" in k for k in keys)


def fx_linear(fx):
    from rules import linear
    c = _ctx()
    for nm in ("bad_free", "ok_free"):
        linear.linear(c, Fn(fx.raw("linear::" + nm)), "linear::Chunk")
    return _fires(c, "linear::bad_free") and not _fires(c, "linear::ok_free")


def fx_miss(fx):
    from rules import miss
    c = _ctx()
    miss.run(c, fx, ["src/lib.rs"], r"Tree::get_code$", only=lambda f: f.startswith("miss::"))
    return _fires(c, "miss::bad_encode") and not _fires(c, "miss::ok_encode")


def fx_state(fx):
    from rules import refusal
    c = _ctx()
    for nm in ("ok_push", "bad_push"):
        refusal.state_refusal(c, Fn(fx.raw("state::Ring::" + nm)), "R-GUARD.state", "push")
    return _fires(c, "Ring::bad_push") and not _fires(c, "Ring::ok_push")


def fx_tasks(fx):
    from rules import linear, order
    c = _ctx()
    for nm in ("bad_balance", "ok_balance"):
        linear.linear(c, Fn(fx.raw("tasks::Q::" + nm)), "dyn tasks::Job", follow=True)
    c2 = _ctx()
    linear.refusing_sinks(c2, fx, "src/lib.rs", "dyn tasks::Job")
    c3 = _ctx()
    order.sequence_order(c3, fx, ["src/lib.rs"])
    return (_fires(c, "Q::bad_balance") and not _fires(c, "Q::ok_balance")
            and _fires(c2, "Q::bad_refill") and not _fires(c2, "Q::ok_refill")
            and _fires(c3, "tasks::bad_map") and not _fires(c3, "tasks::ok_map"))


def fx_trunc(fx):
    from rules import trunc
    c = _ctx()
    n = 0
    for nm in ("bad_varint", "ok_varint"):
        n += trunc.check(c, Fn(fx.raw("trunc::" + nm)))
    return n == 2 and _fires(c, "trunc::bad_varint") and not _fires(c, "trunc::ok_varint")


def fx_marker(fx):
    from rules import pair
    w = Fn(fx.raw("marker::write_field"))
    res = {}
    for nm in ("ok_read_field", "bad_read_field"):
        c = _ctx()
        n = pair.compare_markers(c, "R-PAIR.marker", nm, w, Fn(fx.raw("marker::" + nm)))
        res[nm] = (n, len(c.violations))
    return res["ok_read_field"] == (2, 0) and res["bad_read_field"][0] == 2 and res["bad_read_field"][1] == 1


def fx_probe(fx):
    from rules import sentinel
    c = _ctx()
    n = sentinel.probe_past_tombstones(c, fx, "src/lib.rs", "probe::Slot::mark", {0, (1 << 64) - 1}, name_rx=r"probe::Table::\w+_insert$")
    return n == 2 and _fires(c, "Table::bad_insert") and not _fires(c, "Table::ok_insert")


def fx_sibling(fx):
    from rules import sentinel
    c1, c2 = _ctx(), _ctx()
    n1 = sentinel.index_reduction_agreement(c1, fx, "src/lib.rs", "sib::T::none", only=lambda f: "sib::T::ok_" in f)
    n2 = sentinel.index_reduction_agreement(c2, fx, "src/lib.rs", "sib::T::none", only=lambda f: "sib::T::bad_" in f)
    return n1 == 2 and not c1.violations and n2 == 3 and _fires(c2, "T::bad_put") and len(c2.violations) == 1


def fx_arithmul(fx):
    from rules import taint
    c = _ctx()
    cl = taint.new_closure(fx)
    for fid in fx.fn_ids("src/lib.rs"):
        if fid.startswith("arith::") and fid.endswith("_open"):
            cl.seed_entry(fid)
    for fid, (fn, ft) in cl.run().items():
        taint.check_arith(c, fn, ft, rule="R-ARITH.mul", ops=("Mul", "MulWithOverflow", "MulUnchecked"), fx=fx)
    return _fires(c, "arith::bad_open") and not _fires(c, "arith::ok_open")


def fx_div(fx):
    from rules import taint
    c = _ctx()
    cl = taint.new_closure(fx)
    for fid in fx.fn_ids("src/lib.rs"):
        if fid.startswith("div::"):
            cl.seed_entry(fid)
    n = 0
    for fid, (fn, ft) in cl.run().items():
        n += taint.check_div(c, fn, ft)
    ok1 = n == 2 and _fires(c, "div::bad_decode") and not _fires(c, "div::ok_decode")
    # divisor read from a field that a constructor can leave at 0
    c2 = _ctx()
    cl2 = taint.new_closure(fx)
    for fid in fx.fn_ids("src/lib.rs"):
        if fid.startswith("divfield::"):
            cl2.seed_entry(fid)
    zf = {k: v for k, v in taint.zero_writable_fields(fx).items() if "divfield::" in k}
    m = 0
    for fid, (fn, ft) in cl2.run().items():
        m += taint.check_div(c2, fn, ft, zero_fields=zf)
    return ok1 and m == 2 and _fires(c2, "bad_decode_step") and not _fires(c2, "ok_decode_step")


def fx_prune(fx):
    from rules import prune
    c = _ctx()
    n = prune.run(c, fx, "src/lib.rs", "prune::Node", name_rx=r"prune::\w+_remove$")
    return n == 2 and _fires(c, "prune::bad_remove") and not _fires(c, "prune::ok_remove")


def fx_parallel(fx):
    from rules import parallel
    c = _ctx()
    n = parallel.run(c, fx, "src/lib.rs", "par::Tab", "entries", "cache")
    return n >= 2 and _fires(c, "Tab::bad_compact") and not _fires(c, "Tab::ok_compact")


def fx_simdsign(fx):
    from rules import simdsign
    c = _ctx()
    n = simdsign.run(c, fx)
    return n >= 2 and _fires(c, "simdsign::bad_memcmp16") and not _fires(c, "simdsign::ok_memcmp16")


def fx_shrink(fx):
    from rules import shrink
    c1, c2 = _ctx(), _ctx()
    n1 = shrink.run(c1, fx, "src/lib.rs", "shrink::Bits", "len", "blocks")
    n2 = shrink.run(c2, fx, "src/lib.rs", "shrink::BadBits", "len", "blocks")
    return n1 == 1 and not c1.violations and n2 == 1 and _fires(c2, "BadBits::pop")


def fx_remainder(fx):
    from rules import remainder
    c = _ctx()
    n = remainder.run(c, fx, ["src/lib.rs"])
    return n >= 2 and _fires(c, "shrink::bad_max") and not _fires(c, "shrink::ok_max")


def fx_wrap(fx):
    from rules import wrap
    c1, c2 = _ctx(), _ctx()
    n1 = wrap.run(c1, fx, "src/lib.rs", "wrap::Ring")
    n2 = wrap.run(c2, fx, "src/lib.rs", "wrap::BadRing")
    return n1 == 1 and not c1.violations and n2 == 1 and _fires(c2, "BadRing::bad_bulk")


def fx_emptyrange(fx):
    from rules import shrink
    c = _ctx()
    shrink.empty_range(c, fx, ["src/lib.rs"])
    return _fires(c, "V::bad_shrink") and not _fires(c, "V::ok_shrink")


def fx_tagkind(fx):
    from rules import tagkind
    c1, c2 = _ctx(), _ctx()
    n1 = tagkind.run(c1, fx, "src/lib.rs", only=lambda f: f.startswith("tagk::"))
    n2 = tagkind.run(c2, fx, "src/lib.rs", only=lambda f: f.startswith("tagk_bad::") or f == "tagk::squeeze")
    return n1 == 2 and not c1.violations and n2 == 1 and len(c2.violations) == 1


def fx_fallback(fx):
    from rules import sibling
    c1, c2 = _ctx(), _ctx()
    n1 = sibling.run(c1, fx, ["src/lib.rs"], only=lambda f: f.startswith("fallback::"))
    n2 = sibling.run(c2, fx, ["src/lib.rs"], only=lambda f: f.startswith("fallback_bad::"))
    return n1 == 1 and not c1.violations and n2 == 1 and len(c2.violations) == 1


def fx_commit(fx):
    from rules import sync
    c = _ctx()
    for nm in ("bad_reserve", "ok_reserve", "ok_undo"):
        sync.commit_before_check(c, Fn(fx.raw("commit::Arena::" + nm)))
    ok1 = _fires(c, "Arena::bad_reserve") and not _fires(c, "Arena::ok_reserve") and not _fires(c, "Arena::ok_undo")
    c2 = _ctx()
    for nm in ("bad_acquire", "ok_acquire", "ok_fresh_id"):
        sync.commit_before_check(c2, Fn(fx.raw("commit2::Mgr::" + nm)), fx=fx)
    return ok1 and _fires(c2, "Mgr::bad_acquire") and not _fires(c2, "Mgr::ok_acquire") and not _fires(c2, "Mgr::ok_fresh_id")


def fx_relink(fx):
    from rules import sync
    c = _ctx()
    n = 0
    for nm in ("ok_push", "bad_push"):
        n += sync.push_relink(c, Fn(fx.raw("relink::List::" + nm)), fx=fx)
    return n == 2 and _fires(c, "List::bad_push") and not _fires(c, "List::ok_push")


def fx_lru(fx):
    from rules import lru
    c = _ctx()
    for nm in ("ok_get", "bad_get_notouch", "bad_get_unlocked"):
        lru.touch(c, fx, "lrufx::Map::" + nm, "lrufx::Node::value")
    c2 = _ctx()
    n = lru.list_ops_under_index_lock(c2, fx, "src/lib.rs", "lrufx::Map", "Map::hash_map")
    c3 = _ctx()
    lru.evict_only_for_new(c3, fx, "lrufx::Map::ok_put", "lrufx::Node::value")
    lru.evict_only_for_new(c3, fx, "lrufx::Map::bad_put", "lrufx::Node::value")
    return (_fires(c, "Map::bad_get_notouch") and not _fires(c, "Map::ok_get") and not _fires(c, "Map::bad_get_unlocked")
            and n >= 2 and _fires(c2, "Map::bad_get_unlocked") and not _fires(c2, "Map::ok_get")
            and _fires(c3, "Map::bad_put") and not _fires(c3, "Map::ok_put"))


def fx_viewcursor(fx):
    from rules import linear
    c = _ctx()
    n = linear.view_capacity(c, fx, "viewfx::Region", "size", "actual_size", ["src/lib.rs"])
    c2 = _ctx()
    linear.guard_on_cursor(c2, fx, "viewfx::Chunk::ok_carve")
    linear.guard_on_cursor(c2, fx, "viewfx::Chunk::bad_carve")
    return (n >= 4 and _fires(c, "B::bad_alloc") and not _fires(c, "A::ok_alloc")
            and _fires(c2, "Chunk::bad_carve") and not _fires(c2, "Chunk::ok_carve"))


def fx_locksplit(fx):
    from rules import sync
    c = _ctx()
    n = 0
    for nm in ("ok_ensure", "bad_ensure"):
        n += sync.lock_split(c, Fn(fx.raw("locksplit::Lazy::" + nm)))
    ok1 = n >= 1 and _fires(c, "Lazy::bad_ensure") and not _fires(c, "Lazy::ok_ensure")
    c2 = _ctx()
    for nm in ("ok_free", "bad_free"):
        sync.lock_split(c2, Fn(fx.raw("locksplit2::Bump::" + nm)), fx=fx)
    c3 = _ctx()
    sync.load_modify_store(c3, [Fn(fx.raw("locksplit2::Bump::" + nm)) for nm in ("bad_take_some", "push")])
    return ok1 and _fires(c2, "Bump::bad_free") and not _fires(c2, "Bump::ok_free") and _fires(c3, "Bump::bad_take_some")


def fx_clear(fx):
    from rules import parallel
    c1, c2 = _ctx(), _ctx()
    n1 = parallel.clear_completeness(c1, fx, "src/lib.rs", "locksplit::Slots")
    n2 = parallel.clear_completeness(c2, fx, "src/lib.rs", "locksplit::BadSlots")
    return n1 == 2 and not c1.violations and n2 == 2 and len(c2.violations) == 1


def fx_tailmask(fx):
    from rules import tailmask
    c = _ctx()
    n = tailmask.run(c, fx, ["src/lib.rs"])
    return n >= 3 and _fires(c, "tailmask::bad_count") and not _fires(c, "tailmask::ok_count") and not _fires(c, "tailmask::ok_rank")


def fx_batch(fx):
    from rules import sibling
    c = _ctx()
    n = sibling.batch_effects(c, fx, ["src/lib.rs"])
    return n == 2 and _fires(c, "BadStore::remove_batch") and not _fires(c, "OkStore::remove_batch")


def fx_lanes(fx):
    from rules import simdsign
    c = _ctx()
    simdsign.byte_kernels(c, fx)
    return _fires(c, "simdsign::bad_find_nul") and not _fires(c, "simdsign::ok_find_len") and not _fires(c, "simdsign::ok_memcmp16")


def fx_inflight(fx):
    from rules import sync
    c = _ctx()
    n = 0
    for nm in ("ok_loop", "bad_loop"):
        n += sync.inc_dec_pairing(c, Fn(fx.raw("inflight::W::" + nm)))
    return n == 2 and _fires(c, "W::bad_loop") and not _fires(c, "W::ok_loop")


def fx_lockorder(fx):
    from rules import sync
    c1, c2 = _ctx(), _ctx()
    sync.lock_order(c1, fx, "src/lib.rs", self_ty_filter=r"lockorder_ok::Q")
    sync.lock_order(c2, fx, "src/lib.rs", self_ty_filter=r"lockorder_bad::Q")
    return not c1.violations and len(c2.violations) >= 1


def fx_dropwrite(fx):
    from rules import order
    prev = order.FX
    order.use_facts(fx)
    try:
        c = _ctx()
        for fid in fx.fn_ids("src/lib.rs"):
            if fid.endswith("as std::ops::Drop>::drop") and "dropwrite::" in fid:
                order.forbidden_in(c, Fn(fx.raw(fid)), r"fs::write$", "R-ORDER.drop", "drop does not write")
    finally:
        order.use_facts(prev)
    return _fires(c, "dropwrite::BadFile") and not _fires(c, "dropwrite::OkFile")


def fx_region(fx):
    from rules import refusal
    c = _ctx()
    for nm in ("ok_ptr_to_offset", "bad_ptr_to_offset"):
        refusal.region_upper_bound(c, fx, Fn(fx.raw("region::Pool::" + nm)), 2, r"memory_size$")
    return _fires(c, "Pool::bad_ptr_to_offset") and not _fires(c, "Pool::ok_ptr_to_offset")


def fx_delegate(fx):
    from rules import sibling
    c = _ctx()
    n = sibling.wrapper_delegation(c, fx, trait_suffix="delegate::BlobStore")
    return n == 6 and _fires(c, "delegate::BadWrap") and not _fires(c, "delegate::OkWrap") and len(c.violations) == 2


def fx_serde(fx):
    from rules import flow
    c = _ctx()
    n = flow.serde_fields_restored(c, fx, r"BlobStore$", path_rx=r"serdefx")
    return n == 2 and any("BadStoreBlobStore" in v["fn"] for v in c.violations) and not any("OkStoreBlobStore" in v["fn"] for v in c.violations)


def fx_rangedep(fx):
    from rules import linear
    c = _ctx()
    n = linear.end_from_start(c, fx, "rangedep::ok_range") + linear.end_from_start(c, fx, "rangedep::bad_range")
    return n == 2 and _fires(c, "rangedep::bad_range") and not _fires(c, "rangedep::ok_range")


def fx_scratch(fx):
    from rules import scratch
    c = _ctx()
    n = scratch.run(c, fx, "src/lib.rs", "scratchfx::Enc") + scratch.run(c, fx, "src/lib.rs", "scratchfx::Enc2")
    bad = [v["construct"] for v in c.violations]
    return n == 3 and len(c.violations) == 2 and any("bad_blocks" in w for w in bad) and any("bad_encode" in w for w in bad) \
        and not any("ok_" in w for w in bad)


def fx_narrow(fx):
    from rules import narrow
    c = _ctx()
    narrow.run(c, fx, ["src/lib.rs"], only=lambda fid: "narrowfx::" in fid)
    return _fires(c, "narrowfx::bad_store") and not _fires(c, "narrowfx::ok_store") and not _fires(c, "narrowfx::ok_masked")


def fx_signature(fx):
    from rules import signature
    c1, c2 = _ctx(), _ctx()
    # the two fixture modules live in one file: restrict by struct path
    n1 = signature.run(c1, _Only(fx, "sigfx::"), "src/lib.rs", "sigfx::St")
    n2 = signature.run(c2, _Only(fx, "sigfx_bad::"), "src/lib.rs", "sigfx_bad::St")
    return n1 == 1 and n2 == 1 and not c1.violations and len(c2.violations) == 1 and "is_key" in c2.violations[0]["construct"]


class _Only:
    """view of the fixture facts restricted to ids containing a prefix"""
    def __init__(self, fx, part):
        self.fx, self.part = fx, part

    def fn_ids(self, file=None):
        return [f for f in self.fx.fn_ids(file) if self.part in f]

    def __getattr__(self, k):
        return getattr(self.fx, k)


def fx_varint(fx):
    from rules import trunc
    c = _ctx()
    n = trunc.writer_threshold(c, fx, ["src/lib.rs"], only=lambda fid: "varintfx::" in fid)
    return n == 3 and _fires(c, "varintfx::bad_write") and not _fires(c, "varintfx::ok_write")


def fx_widthcheck(fx):
    from rules import narrow
    c1, c2 = _ctx(), _ctx()
    n1 = narrow.packed_value_checked(c1, fx, "widthfx::ok_build", r"::store_bits_static$")
    n2 = narrow.packed_value_checked(c2, fx, "widthfx::bad_build", r"::store_bits_static$")
    c3 = _ctx()
    n3 = narrow.packed_value_checked(c3, fx, "widthfx::ok_build_helper", r"::store_bits_static$")
    return n1 == 2 and n2 == 2 and n3 == 1 and not c1.violations and len(c2.violations) == 1 and not c3.violations


def fx_record(fx):
    from rules import tagkind
    res = {}
    for f in ("ok_put", "ok_put2", "bad_put"):
        c = _ctx()
        n = tagkind.record_sites(c, fx, "recfx::Store::" + f, "recfx::Rec", "bytes", ["packed", "stage"])
        res[f] = (n, len(c.violations))
    return res["ok_put"] == (2, 0) and res["ok_put2"] == (2, 0) and res["bad_put"] == (2, 1)


def fx_capsrc(fx):
    from rules import capsrc
    c = _ctx()
    n = capsrc.run(c, fx, ["src/lib.rs"], only=lambda fid: "capfx::" in fid)
    return n == 3 and _fires(c, "capfx::bad_ratio") and not _fires(c, "capfx::ok_const") and not _fires(c, "capfx::ok_stored")


def fx_pairaccess(fx):
    from rules import narrow
    c1, c2 = _ctx(), _ctx()
    narrow.pair_accessor(c1, fx, "pairfx::V::ok_get2")
    narrow.pair_accessor(c2, fx, "pairfx::V::bad_get2")
    return not c1.violations and len(c2.violations) == 1


def fx_partial(fx):
    from rules import partial
    c = _ctx()
    n = partial.run(c, fx, ["src/lib.rs"], only=lambda fid: "partialfx::" in fid)
    return n == 4 and _fires(c, "bad_flush") and not _fires(c, "ok_flush") and not _fires(c, "drain_to")


def fx_openguard(fx):
    from rules import openguard
    res = {}
    for f in ("ok_open", "ok_open_helper", "bad_open", "bad_open_ignored"):
        c = _ctx()
        openguard.check(c, Fn(fx.raw("openfx::FV::" + f)), r"::capacity$|Header::capacity", r"fs::Metadata::len$|fs::metadata$", fx=fx)
        res[f] = len(c.violations)
    return res == {"ok_open": 0, "ok_open_helper": 0, "bad_open": 1, "bad_open_ignored": 1}


def fx_flow(fx):
    from rules import flow
    src = r"Read::read_exact$|Read>::read_exact$"
    fld = "flowfx::St::content"
    f = lambda n: Fn(fx.raw("flowfx::St::" + n))
    return flow.source_reaches_field(f("ok_load"), src, fld, fx=fx) and flow.source_reaches_field(f("ok_load_helper"), src, fld, fx=fx) \
        and not flow.source_reaches_field(f("bad_load"), src, fld, fx=fx) \
        and flow.field_reaches_sink(f("ok_save"), fld, r"Write::write_all$|Write>::write_all$") \
        and not flow.field_reaches_sink(f("bad_save"), fld, r"Write::write_all$|Write>::write_all$")


def fx_matchverify(fx):
    from rules import matchverify
    c = _ctx()
    n = matchverify.run(c, fx, ["src/lib.rs"], only=lambda fid: "matchfx::" in fid)
    return n == 3 and _fires(c, "matchfx::bad_trusts_hash") and not _fires(c, "matchfx::ok_from_zero") and not _fires(c, "matchfx::ok_verified")


def fx_shared(fx):
    from rules import order
    c = _ctx()
    n = order.shared_accumulator(c, fx, ["src/lib.rs"], only=lambda fid: "sharedfx::" in fid)
    return n == 3 and _fires(c, "sharedfx::bad_blocks") and not _fires(c, "sharedfx::ok_blocks") and not _fires(c, "sharedfx::ok_sorted")


def fx_hint(fx):
    from rules import capsrc
    c = _ctx()
    n = capsrc.hint_only_reserves(c, fx, ["src/lib.rs"], only=lambda fid: "hintfx::" in fid)
    return n == 2 and _fires(c, "bad_batch") and not _fires(c, "ok_batch")


def fx_builder(fx):
    from rules import flow
    c1, c2 = _ctx(), _ctx()
    n1 = flow.builder_consumes(c1, fx, "src/lib.rs", "builderfx::OkBuilder")
    n2 = flow.builder_consumes(c2, fx, "src/lib.rs", "builderfx::BadBuilder")
    return n1 == 2 and n2 == 2 and not c1.violations and len(c2.violations) == 1 and "content" in c2.violations[0]["construct"]


def fx_recurse(fx):
    from rules import taint
    c = _ctx()
    cl = taint.new_closure(fx)
    for fid in fx.fn_ids("src/lib.rs"):
        if fid.startswith("recfx2::"):
            cl.seed_entry(fid)
    n = taint.recursion_cycles(c, cl.run())
    return n == 3 and _fires(c, "recfx2::bad_decode") and not _fires(c, "recfx2::ok_decode")


def fx_uninit(fx):
    from rules import uninit
    c = _ctx()
    n = uninit.run(c, fx, ["src/lib.rs"], only=lambda fid: "uninitfx::" in fid)
    return n == 2 and _fires(c, "uninitfx::bad_array") and not _fires(c, "uninitfx::ok_array")


def fx_clamploop(fx):
    from rules import capsrc
    c = _ctx()
    n = capsrc.clamped_count(c, fx, ["src/lib.rs"], only=lambda fid: "clampfx::" in fid)
    return n == 2 and _fires(c, "clampfx::bad_deserialize") and not _fires(c, "clampfx::ok_deserialize")


def fx_takeexact(fx):
    from rules import partial
    c = _ctx()
    n = partial.bounded_section_read(c, fx, ["src/lib.rs"], only=lambda fid: "takefx::" in fid)
    return n == 3 and _fires(c, "takefx::bad_section") and not _fires(c, "takefx::ok_section")


def fx_createtrunc(fx):
    from rules import order
    c = _ctx()
    n = order.create_truncates(c, fx, ["src/lib.rs"], only=lambda fid: "createfx::" in fid)
    return n == 2 and _fires(c, "createfx::Out2::create") and not _fires(c, "createfx::Out::create")


def fx_release(fx):
    from rules import release
    c = _ctx()
    n = release.run(c, fx, ["src/lib.rs"], only=lambda fid: "releasefx::" in fid)
    return n >= 2 and _fires(c, "bad_free_then_scrub") and not _fires(c, "ok_scrub_then_free")


def fx_padmask(fx):
    from rules import simdsign
    c = _ctx()
    n = simdsign.padded_mask(c, fx, ["src/lib.rs"], only=lambda fid: "padfx::" in fid)
    return n == 2 and _fires(c, "padfx::bad_find") and not _fires(c, "padfx::ok_find")


def fx_flatten(fx):
    from rules import errdead
    c = _ctx()
    errdead.no_result_flatten(c, fx, ["src/lib.rs"], only=lambda fid: "flattenfx::" in fid)
    return _fires(c, "flattenfx::bad_join") and not _fires(c, "flattenfx::ok_join") and not _fires(c, "flattenfx::ok_flatten_options")


def fx_narrowidx(fx):
    from rules import narrow
    c = _ctx()
    n = narrow.index_param_narrowed(c, fx, ["src/lib.rs"], only=lambda fid: "nidxfx::" in fid)
    return n == 2 and _fires(c, "nidxfx::V32::bad_index") and not _fires(c, "nidxfx::V32::ok_index")


def fx_pow2(fx):
    from rules import wrap
    c = _ctx()
    n = wrap.mask_needs_power_of_two(c, _Only(fx, "pow2fx::"), ["src/lib.rs"])
    return n == 2 and _fires(c, "pow2fx::BadRing") and not _fires(c, "pow2fx::OkRing")


def fx_panicsafe(fx):
    from rules import shrink
    c = _ctx()
    n = shrink.len_committed_per_item(c, fx, ["src/lib.rs"], only=lambda fid: "psfx::" in fid)
    return n == 2 and _fires(c, "psfx::RawVec::bad_extend") and not _fires(c, "psfx::RawVec::ok_extend")


def fx_identity(fx):
    from rules import simdsign
    c = _ctx()
    n = simdsign.ptr_identity_fast_path(c, fx, ["src/lib.rs"], only=lambda fid: "identfx::" in fid)
    return n == 2 and _fires(c, "identfx::bad_compare") and not _fires(c, "identfx::ok_compare")


def fx_narrowsum(fx):
    from rules import taint
    c = _ctx()
    n = taint.narrow_sums(c, fx, ["sumfx::decode_bad", "sumfx::decode_ok"])
    return n == 2 and _fires(c, "sumfx::bad_model") and not _fires(c, "sumfx::ok_model") and not _fires(c, "sumfx::ok_wide")


def fx_strslice(fx):
    from rules import taint
    c = _ctx()
    cl = taint.new_closure(fx)
    for fid in fx.fn_ids("src/lib.rs"):
        if fid.startswith("strfx::"):
            cl.seed_entry(fid)
    n = taint.str_byte_slices(c, cl.run())
    return n == 1 and _fires(c, "strfx::bad_parse") and not _fires(c, "strfx::ok_parse")


def fx_flushwhole(fx):
    from rules import scratch
    c = _ctx()
    n = scratch.partial_flush_then_clear(c, fx, ["src/lib.rs"], only=lambda fid: "flushfx::" in fid)
    return n == 2 and _fires(c, "bad_flush") and not _fires(c, "ok_flush_all") and not _fires(c, "ok_flush_drain")


def fx_cachedview(fx):
    from rules import cachedview
    c = _ctx()
    nb = cachedview.run(c, fx, "src/lib.rs", "cviewfx::BadBuf", "store", "view", only=lambda fid: "cviewfx::BadBuf" in fid)
    no = cachedview.run(c, fx, "src/lib.rs", "cviewfx::OkBuf", "store", "view", only=lambda fid: "cviewfx::OkBuf" in fid)
    c2 = _ctx()
    n2 = cachedview.run(c2, fx, "src/lib.rs", "cviewfx2::OkBuf2", "store", "view", only=lambda fid: "cviewfx2::" in fid)
    if n2 < 3 or c2.violations or _fires(c, "BadBuf::grow"):
        return False
    c4 = _ctx()
    ns = cachedview.setters_always_refresh(c4, fx, "src/lib.rs", "cviewfx::OkBuf", "view", ("ok_append", "ok_reserve", "ok_clear"),
                                           only=lambda fid: "cviewfx::OkBuf" in fid)
    # ok_append returns early on an empty source: as a *replacing* method that would be wrong, and only that one is
    if ns != 3 or not _fires(c4, "OkBuf::ok_append") or _fires(c4, "OkBuf::ok_reserve") or _fires(c4, "OkBuf::ok_clear"):
        return False
    return nb >= 5 and no >= 3 and _fires(c, "BadBuf::bad_append") and _fires(c, "BadBuf::bad_reserve") and \
        _fires(c, "BadBuf::bad_via_helper") and not _fires(c, "BadBuf::set") and not _fires(c, "cviewfx::OkBuf")


def fx_markcount(fx):
    from rules import parallel
    c = _ctx()
    nb = parallel.companion_built_per_entry(c, fx, "src/lib.rs", "markfx::BadMap", "cache", only=lambda fid: "markfx::BadMap" in fid)
    no = parallel.companion_built_per_entry(c, fx, "src/lib.rs", "markfx::OkMap", "cache", only=lambda fid: "markfx::OkMap" in fid)
    mb = parallel.deleted_count_marks(c, fx, "src/lib.rs", "markfx::BadMap", "dead", ".markfx::Ent::link", "L",
                                      only=lambda fid: "markfx::BadMap" in fid)
    mo = parallel.deleted_count_marks(c, fx, "src/lib.rs", "markfx::OkMap", "dead", ".markfx::Ent::link", "L",
                                      only=lambda fid: "markfx::OkMap" in fid)
    c3 = _ctx()
    n3 = parallel.companion_built_per_entry(c3, fx, "src/lib.rs", "markfx2::ItMap", "cache", only=lambda fid: "markfx2::" in fid)
    if n3 != 2 or not _fires(c3, "ItMap::<L>::bad_collect") or _fires(c3, "ItMap::<L>::ok_collect"):
        return False
    return nb == 1 and no == 1 and mb == 1 and mo == 2 and _fires(c, "BadMap::<L>::bad_build") and _fires(c, "BadMap::<L>::bad_free") \
        and not _fires(c, "markfx::OkMap")


def fx_keylimit(fx):
    from rules import sibling
    c = _ctx()
    nb = sibling.key_length_limits(c, fx, "src/lib.rs", only=lambda fid: "keylimfx::bad::" in fid)
    no = sibling.key_length_limits(c, fx, "src/lib.rs", only=lambda fid: "keylimfx::ok::" in fid)
    return nb == 3 and no == 3 and _fires(c, "keylimfx::bad::contains") and not _fires(c, "keylimfx::ok::") and \
        not _fires(c, "keylimfx::bad::insert")


def fx_countrmw(fx):
    from rules import sync
    c = _ctx()
    nb = sync.counter_only_rmw(c, fx, "src/lib.rs", "countfx::BadMgr", ["writers"], only=lambda fid: "countfx::BadMgr" in fid)
    no = sync.counter_only_rmw(c, fx, "src/lib.rs", "countfx::OkMgr", ["writers"], only=lambda fid: "countfx::OkMgr" in fid)
    return nb == 2 and no == 2 and _fires(c, "BadMgr::bad_release") and not _fires(c, "BadMgr::new") and not _fires(c, "countfx::OkMgr")


def fx_rawwords(fx):
    from rules import shrink
    c = _ctx()
    n = shrink.raw_words_masked(c, fx, ["src/lib.rs"], only=lambda fid: "rawfx::" in fid)
    return n == 3 and _fires(c, "rawfx::bad_from_words") and not _fires(c, "rawfx::ok_from_words") and not _fires(c, "rawfx::ok_bitwise")


def fx_clearcursors(fx):
    from rules import wrap
    c = _ctx()
    nb = wrap.clear_resets_both_cursors(c, fx, "src/lib.rs", "curfx::BadRing")
    no = wrap.clear_resets_both_cursors(c, fx, "src/lib.rs", "curfx::OkRing")
    return nb == 1 and no == 1 and _fires(c, "curfx::BadRing::clear") and not _fires(c, "curfx::OkRing")
