"""Per-function MIR view: CFG, dominators, post-dominators, def-use, points-to, slices.

Locations are (bb, idx); idx == len(stmts) designates the terminator.
"""
from collections import defaultdict, deque


def op_place(op):
    """place list of a copy/move operand, else None"""
    if op and op[0] in ("c", "m"):
        return op[1]
    return None


def op_local(op):
    p = op_place(op)
    return p[0] if p else None


def op_const(op):
    """(value:int|str|None, ty) for a constant operand, else None"""
    if op and op[0] == "k":
        v = op[1]
        if isinstance(v, str) and not v.startswith("fn:"):
            try:
                v = int(v)
            except ValueError:
                pass
        return (v, op[2])
    return None


def place_locals(p):
    """all locals a place reads: base + index locals"""
    out = [p[0]]
    for e in p[1:]:
        if isinstance(e, str) and e.startswith("[_"):
            out.append(int(e[2:-1]))
    return out


def place_has_deref(p):
    return any(e == "*" for e in p[1:])


def place_fields(p):
    return [e for e in p[1:] if isinstance(e, str) and e.startswith(".")]


def rv_operands(rv):
    """operands (as operand lists) read by an rvalue; places are wrapped as copy operands"""
    k = rv[0]
    if k in ("use",):
        return [rv[1]]
    if k == "rep":
        return [rv[1]]
    if k in ("ref", "refmut", "fakeref"):
        return [["c", rv[1]]]
    if k == "raw":
        return [["c", rv[2]]]
    if k == "cast":
        return [rv[2]]
    if k == "bin":
        return [rv[2], rv[3]]
    if k == "un":
        return [rv[2]]
    if k == "disc":
        return [["c", rv[1]]]
    if k == "agg":
        return list(rv[2])
    return []


class Fn:
    def __init__(self, rec):
        self.rec = rec
        self.id = rec["id"]
        self.file = rec["file"]
        self.line = rec["line"]
        self.locals = rec["locals"]
        self.names = {int(k): v for k, v in rec["names"].items()}
        self.nargs = rec["nargs"]
        self.bbs = rec["bbs"]
        self.n = len(self.bbs)
        self._succ = None
        self._pred = None
        self._dom = None
        self._pdom = None
        self._defs = None
        self._pt = None
        self._uses = None
        self.pruned_edges = set()

    # ---------- basic accessors
    def stmts(self, b):
        return self.bbs[b]["s"]

    def term(self, b):
        return self.bbs[b]["t"]

    def is_cleanup(self, b):
        return self.bbs[b]["c"]

    def local_name(self, l):
        return self.names.get(l, "_%d" % l)

    def ty(self, l):
        return self.locals[l]

    def term_succs(self, b, unwind=False):
        t = self.term(b)
        k = t[0]
        if k == "goto":
            return [t[1]]
        if k == "sw":
            out = [x[1] for x in t[2]] + [t[3]]
            return list(dict.fromkeys(out))
        if k == "drop":
            out = [t[2]]
            if unwind and t[3] is not None:
                out.append(t[3])
            return out
        if k == "call":
            c = t[1]
            out = [] if c["t"] is None else [c["t"]]
            if unwind and c["u"] is not None:
                out.append(c["u"])
            return out
        if k == "assert":
            return [t[5]]
        if k == "yield":
            return [t[2]]
        if k == "fe":
            return [t[1]]
        if k == "asm":
            return list(t[1])
        return []

    def build_cfg(self):
        if self._succ is not None:
            return
        succ = [[] for _ in range(self.n)]
        for b in range(self.n):
            ss = self.term_succs(b)
            succ[b] = [s for s in ss if (b, s) not in self.pruned_edges]
        # reachability from entry over normal edges
        seen = {0}
        dq = deque([0])
        while dq:
            b = dq.popleft()
            for s in succ[b]:
                if s not in seen:
                    seen.add(s)
                    dq.append(s)
        self.reach = seen
        pred = [[] for _ in range(self.n)]
        for b in seen:
            for s in succ[b]:
                pred[s].append(b)
        self._succ = succ
        self._pred = pred

    def prune_edges(self, edges):
        self.pruned_edges |= set(edges)
        self._succ = self._pred = self._dom = self._pdom = None

    def succ(self, b):
        self.build_cfg()
        return self._succ[b]

    def pred(self, b):
        self.build_cfg()
        return self._pred[b]

    def blocks(self):
        self.build_cfg()
        return sorted(self.reach)

    # ---------- dominators (sets; functions are small)
    def _domsets(self, entry_nodes, nodes, pred_of):
        full = set(nodes)
        dom = {n: set(full) for n in nodes}
        for e in entry_nodes:
            dom[e] = {e}
        changed = True
        order = list(nodes)
        while changed:
            changed = False
            for n in order:
                if n in entry_nodes:
                    continue
                ps = [p for p in pred_of(n) if p in dom]
                if ps:
                    new = set.intersection(*(dom[p] for p in ps))
                else:
                    new = set()
                new = new | {n}
                if new != dom[n]:
                    dom[n] = new
                    changed = True
        return dom

    def dom(self):
        if self._dom is None:
            self.build_cfg()
            # reverse post order for quick convergence
            order = self.rpo()
            self._dom = self._domsets({0}, order, lambda n: self._pred[n])
        return self._dom

    def rpo(self):
        self.build_cfg()
        seen = set()
        out = []
        stack = [(0, iter(self._succ[0]))]
        seen.add(0)
        while stack:
            b, it = stack[-1]
            adv = False
            for s in it:
                if s not in seen:
                    seen.add(s)
                    stack.append((s, iter(self._succ[s])))
                    adv = True
                    break
            if not adv:
                out.append(b)
                stack.pop()
        out.reverse()
        return out

    def dominates(self, a, b):
        """block a dominates block b"""
        d = self.dom()
        return b in d and a in d[b]

    def loc_dominates(self, la, lb):
        (a, i), (b, j) = la, lb
        if a == b:
            return i <= j
        return self.dominates(a, b)

    def exits(self):
        """blocks ending in return (normal exits)"""
        return [b for b in self.blocks() if self.term(b)[0] in ("ret", "tailcall", "cordrop")]

    def pdom(self):
        """post-dominator sets w.r.t. normal return exits (virtual exit = -1)"""
        if self._pdom is None:
            self.build_cfg()
            nodes = self.blocks() + [-1]
            exits = set(self.exits())

            def rpred(n):
                # predecessors in the reversed graph = successors in the CFG
                if n == -1:
                    return []
                ss = list(self._succ[n])
                if n in exits:
                    ss = ss + [-1]
                return ss
            order = list(reversed(self.rpo())) + [-1]
            order = [-1] + [x for x in order if x != -1]
            self._pdom = self._domsets({-1}, order, rpred)
        return self._pdom

    def postdominates(self, a, b):
        p = self.pdom()
        return b in p and a in p[b]

    def reachable_from(self, starts, avoid=(), avoid_edges=()):
        """blocks reachable from `starts` (inclusive) without entering blocks in avoid"""
        self.build_cfg()
        avoid = set(avoid)
        avoid_edges = set(avoid_edges)
        seen = set()
        dq = deque(s for s in starts if s not in avoid)
        seen.update(dq)
        while dq:
            b = dq.popleft()
            for s in self._succ[b]:
                if s in avoid or (b, s) in avoid_edges or s in seen:
                    continue
                seen.add(s)
                dq.append(s)
        return seen

    # ---------- statements iteration
    def iter_locs(self):
        for b in self.blocks():
            st = self.stmts(b)
            for i, s in enumerate(st):
                yield (b, i), s
            yield (b, len(st)), self.term(b)

    def calls(self):
        """[(bb, callrec)] for reachable blocks"""
        out = []
        for b in self.blocks():
            t = self.term(b)
            if t[0] == "call":
                out.append((b, t[1]))
        return out

    # ---------- defs / uses / points-to
    def _build_defs(self):
        if self._defs is not None:
            return
        defs = defaultdict(list)   # local -> [(loc, kind, payload)]
        pt = defaultdict(set)      # local -> locals it may point to (refs/raw ptrs to locals)
        copies = []
        for b in self.blocks():
            st = self.stmts(b)
            for i, s in enumerate(st):
                if s[0] == "a":
                    dst, rv = s[1], s[2]
                    defs[dst[0]].append(((b, i), "assign", s))
                    if len(dst) == 1:
                        k = rv[0]
                        if k in ("ref", "refmut", "raw"):
                            src = rv[1] if k != "raw" else rv[2]
                            if place_has_deref(src):
                                copies.append((dst[0], src[0]))
                            else:
                                pt[dst[0]].add(src[0])
                        elif k in ("use", "cast"):
                            o = rv[1] if k == "use" else rv[2]
                            l = op_local(o)
                            if l is not None and len(op_place(o)) == 1:
                                copies.append((dst[0], l))
            t = self.term(b)
            if t[0] == "call":
                d = t[1]["d"]
                defs[d[0]].append(((b, len(st)), "call", t[1]))
            elif t[0] == "yield":
                pass
        # propagate points-to through plain copies
        changed = True
        it = 0
        while changed and it < 20:
            changed = False
            it += 1
            for d, s in copies:
                if pt[s] - pt[d]:
                    pt[d] |= pt[s]
                    changed = True
        # indirect defs: stores through pointers, &mut passed to calls
        for b in self.blocks():
            st = self.stmts(b)
            for i, s in enumerate(st):
                if s[0] == "a" and place_has_deref(s[1]):
                    for tgt in pt.get(s[1][0], ()):
                        defs[tgt].append(((b, i), "store", s))
            t = self.term(b)
            if t[0] == "call":
                for a in t[1]["a"]:
                    l = op_local(a)
                    if l is None:
                        continue
                    tyl = self.locals[l]
                    if pt.get(l) and (tyl.startswith("&mut") or tyl.startswith("*mut")
                                      or "&mut" in tyl or "Pin<&mut" in tyl):
                        for tgt in pt[l]:
                            defs[tgt].append(((b, len(st)), "mutarg", t[1]))
        self._defs = defs
        self._pt = pt

    def defs(self, l):
        self._build_defs()
        return self._defs.get(l, [])

    def points_to(self, l):
        self._build_defs()
        return self._pt.get(l, set())

    def stmt_at(self, loc):
        b, i = loc
        st = self.stmts(b)
        return st[i] if i < len(st) else self.term(b)

    def backslice(self, roots, call_through=None, max_nodes=4000, stop=None):
        """Flow-insensitive backward data slice.
        roots: iterable of locals. Returns (locals, deflocs) where deflocs is a list of
        (loc, kind, payload) of every def encountered.
        call_through(callrec) -> True if the call's result depends on its args (default True).
        stop(local) -> True to not expand a local further."""
        self._build_defs()
        seen = set()
        sites = []
        seen_sites = set()
        dq = deque(roots)
        while dq and len(seen) < max_nodes:
            l = dq.popleft()
            if l in seen:
                continue
            seen.add(l)
            if stop and stop(l):
                continue
            for loc, kind, pl in self._defs.get(l, ()):
                key = (loc, kind)
                if key not in seen_sites:
                    seen_sites.add(key)
                    sites.append((loc, kind, pl))
                if kind in ("assign", "store"):
                    for o in rv_operands(pl[2]):
                        p = op_place(o)
                        if p:
                            for x in place_locals(p):
                                if x not in seen:
                                    dq.append(x)
                    # the base pointer of a store is not a data source
                elif kind in ("call", "mutarg"):
                    if call_through is None or call_through(pl):
                        for a in pl["a"]:
                            p = op_place(a)
                            if p:
                                for x in place_locals(p):
                                    if x not in seen:
                                        dq.append(x)
                        if "fop" in pl:
                            p = op_place(pl["fop"])
                            if p and p[0] not in seen:
                                dq.append(p[0])
            # a local that is a reference: what it points to flows too
            for tgt in self._pt.get(l, ()):
                if tgt not in seen:
                    dq.append(tgt)
        return seen, sites

    def forward_locals(self, roots, call_through=None, max_nodes=6000):
        """Flow-insensitive forward data slice: locals data-dependent on roots."""
        self._build_uses()
        seen = set()
        dq = deque(roots)
        while dq and len(seen) < max_nodes:
            l = dq.popleft()
            if l in seen:
                continue
            seen.add(l)
            for dst, kind, pl in self._uses.get(l, ()):
                if kind in ("call",) and call_through is not None and not call_through(pl):
                    continue
                if dst not in seen:
                    dq.append(dst)
        return seen

    def _build_uses(self):
        if self._uses is not None:
            return
        self._build_defs()
        uses = defaultdict(list)  # src local -> [(dst local, kind, payload)]
        for l, ds in self._defs.items():
            for loc, kind, pl in ds:
                if kind in ("assign", "store"):
                    for o in rv_operands(pl[2]):
                        p = op_place(o)
                        if p:
                            for x in place_locals(p):
                                uses[x].append((l, kind, pl))
                else:
                    for a in pl["a"]:
                        p = op_place(a)
                        if p:
                            for x in place_locals(p):
                                uses[x].append((l, "call", pl))
        # pointer targets: writing into *p where p -> t is covered by 'store'/'mutarg' defs
        for l, tg in self._pt.items():
            for t in tg:
                uses[t].append((l, "ref", None))
        self._uses = uses

    def reaching_defs(self, loc, l):
        """def entries (loc, kind, payload) of local l that reach location loc (backward walk)"""
        self._build_defs()
        by_loc = defaultdict(list)
        for d in self._defs.get(l, ()):
            by_loc[d[0]].append(d)
        if not by_loc:
            return []
        out = []
        seen = set()
        work = [(loc[0], loc[1] - 1)]
        entry_reached = False
        while work:
            b, i = work.pop()
            found = False
            j = i
            while j >= 0:
                if (b, j) in by_loc:
                    out.extend(by_loc[(b, j)])
                    found = True
                    break
                j -= 1
            if found:
                continue
            if b == 0:
                entry_reached = True
            for p in self.pred(b):
                if p not in seen:
                    seen.add(p)
                    work.append((p, len(self.stmts(p))))
        return out

    def reads(self, l):
        """locations where local l is read (operands, call args, switch/assert/yield operands,
        base of a projected destination); Drop and StorageDead do not count"""
        if getattr(self, "_reads", None) is None:
            rd = defaultdict(list)
            for loc, s in self.iter_locs():
                k = s[0]
                ops = []
                if k == "a":
                    ops = rv_operands(s[2])
                    if len(s[1]) > 1:
                        ops = ops + [["c", s[1]]]
                elif k == "call":
                    ops = list(s[1]["a"])
                    if "fop" in s[1]:
                        ops.append(s[1]["fop"])
                    if len(s[1]["d"]) > 1:
                        ops.append(["c", s[1]["d"]])
                elif k == "sw":
                    ops = [s[1]]
                elif k == "assert":
                    ops = [s[1]] + list(s[4])
                elif k == "yield":
                    ops = [s[1]]
                for o in ops:
                    p = op_place(o)
                    if p:
                        for x in place_locals(p):
                            rd[x].append((loc, p))
            self._reads = rd
        return self._reads.get(l, [])

    # ---------- convenience
    def const_switch_edges(self):
        """edges of SwitchInt whose discriminant is a constant assigned in the same block
        (e.g. cfg!(..) || runtime_check()): returns the never-taken edges"""
        dead = []
        for b in self.blocks():
            t = self.term(b)
            if t[0] != "sw":
                continue
            val = None
            c = op_const(t[1])
            if c is not None and isinstance(c[0], int):
                val = c[0]
            else:
                l = op_local(t[1])
                if l is not None and len(op_place(t[1])) == 1:
                    ds = self.defs(l)
                    if len(ds) == 1 and ds[0][1] == "assign" and ds[0][0][0] == b:
                        rv = ds[0][2][2]
                        if rv[0] == "use":
                            c = op_const(rv[1])
                            if c is not None and isinstance(c[0], int):
                                val = c[0]
            if val is None:
                continue
            taken = None
            for v, tgt in t[2]:
                if int(v) == val:
                    taken = tgt
            if taken is None:
                taken = t[3]
            for s in self.term_succs(b):
                if s != taken:
                    dead.append((b, s))
        return dead

    def switch_edge_values(self, b):
        """for a SwitchInt block: {target: set(values)|{'otherwise'}}"""
        t = self.term(b)
        out = defaultdict(set)
        if t[0] == "sw":
            for v, tgt in t[2]:
                out[tgt].add(int(v))
            out[t[3]].add("otherwise")
        return out
