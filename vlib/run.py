"""Check harness: violations, known findings, evidence, exit status."""
import json
import os
import sys
import time

from . import facts as F

VERIF = F.VERIF
KNOWN = os.path.join(VERIF, "known_findings.json")


class Broken(Exception):
    """machinery failure (fail closed, distinct from a property violation)"""


class Ctx:
    def __init__(self, pid, tier, seed):
        self.pid = pid
        self.tier = tier
        self.seed = seed
        self.t0 = time.time()
        self.violations = []     # dicts: key,rule,fn,file,line,msg,path
        self.obligations = 0
        self.discharged = 0
        self.nontrivial = set()
        self.samples = []
        self.analysed_fns = set()
        self.instances = {}      # rule -> count
        self.floors = {}         # rule -> floor
        self.notes = []
        self.configs = []
        self.fixture_results = {}
        self.unresolved_edges = 0
        self.extra = {}
        self._facts = {}
        self._rmeta = {}
        self.selftest = {}

    # ---- facts
    def facts(self, config="default"):
        if config == "default" and getattr(self, "config_override", None):
            config = self.config_override
        if config not in self._facts:
            p, rmeta, info = F.extract(config)
            fx = F.Facts(p)
            if not fx.meta or fx.meta.get("crate") != "zipora" or fx.meta.get("bodies", 0) < 5000:
                raise Broken("fact file for %s is implausible: %r" % (config, fx.meta))
            self._facts[config] = fx
            self._rmeta[config] = (rmeta, info)
            self.configs.append({"config": config, "bodies": fx.meta["bodies"],
                                 "stolen": fx.meta["stolen"], "tree_hash": info["tree_hash"],
                                 "reused_extraction": info.get("reused", False)})
        return self._facts[config]

    def rmeta(self, config="default"):
        self.facts(config)
        return self._rmeta[config]

    # ---- bookkeeping
    def obligation(self, rule, fn, site, ok, nontrivial=True, sample=None):
        self.obligations += 1
        if ok:
            self.discharged += 1
        if nontrivial:
            self.nontrivial.add((rule, fn, str(site)))
        if sample is not None and len(self.samples) < 12:
            self.samples.append(sample)

    def instance(self, rule, n=1):
        self.instances[rule] = self.instances.get(rule, 0) + n

    def floor(self, rule, n):
        self.floors[rule] = n

    def violation(self, rule, fn, construct, msg, file=None, line=None, path=None):
        key = "%s :: %s :: %s" % (rule, fn, construct)
        for v in self.violations:
            if v["key"] == key:
                return
        self.violations.append({"key": key, "rule": rule, "fn": fn, "construct": construct,
                                "msg": msg, "file": file, "line": line, "path": path})

    def note(self, s):
        self.notes.append(s)


def load_known():
    if not os.path.exists(KNOWN):
        return {"findings": [], "fixed": []}
    return json.load(open(KNOWN))


def finish(ctx, level_note, explanation, trusted_base, rule_text):
    pid = ctx.pid
    known = load_known()
    kf = {k["key"]: k for k in known.get("findings", []) if k.get("property") == pid}
    new = []
    reobserved = []
    for v in ctx.violations:
        if v["key"] in kf:
            reobserved.append(v)
        else:
            new.append(v)
    broken = []
    for rule, floor in ctx.floors.items():
        got = ctx.instances.get(rule, 0)
        if got < floor:
            broken.append("rule %s matched %d instances, floor is %d" % (rule, got, floor))
    for name, ok in ctx.fixture_results.items():
        if not ok:
            broken.append("fixture %s did not behave as expected" % name)

    selftest_mode = os.environ.get("VERIF_SELFTEST") == "1"     # run against a scratch copy: report only, write nothing
    os.makedirs(os.path.join(VERIF, "evidence", "replay"), exist_ok=True)
    out_lines = []
    for v in reobserved:
        out_lines.append("KNOWN-FINDING: property=%s %s -- %s" % (pid, v["key"], kf[v["key"]].get("what", v["msg"])))
    replay_paths = []
    for i, v in enumerate(new):
        rp = os.path.join(VERIF, "evidence", "replay", "%s_%d.json" % (pid, i))
        if not selftest_mode:
            json.dump(v, open(rp, "w"), indent=1)
        replay_paths.append(rp)
        out_lines.append("  %s:%s: [%s] %s: %s" % (v["file"], v["line"], v["rule"], v["fn"], v["msg"]))
        out_lines.append("VIOLATION property=%s replay=%s" % (pid, rp))
    stale = [k for k in kf if k not in {v["key"] for v in reobserved}]
    for k in stale:
        out_lines.append("note: known finding no longer observed: %s" % k)

    ev = {
        "property_id": pid,
        "tier": ctx.tier,
        "seed": ctx.seed,
        "level": "other",
        "coverage": {
            "explanation": explanation,
            "rule": rule_text,
            "evaluations": max(ctx.obligations, 0),
            "distinct_nontrivial": len(ctx.nontrivial),
            "obligations": ctx.obligations,
            "discharged": ctx.discharged,
            "functions_analysed": len(ctx.analysed_fns),
            "rule_instances": ctx.instances,
            "instance_floors": ctx.floors,
            "configurations": ctx.configs,
            "fixtures": ctx.fixture_results,
            "selftest": ctx.selftest,
            "known_findings_reobserved": [v["key"] for v in reobserved],
            "known_findings_stale": stale,
            "new_violations": [v["key"] for v in new],
            "samples": ctx.samples,
            "trusted_base": trusted_base,
            "notes": ctx.notes,
            "exhaustive": False,
        },
        "assumptions": [level_note],
        "wall_s": round(time.time() - ctx.t0, 2),
        "violations": len(new),
    }
    ev["coverage"].update(ctx.extra)
    if not selftest_mode:
        with open(os.path.join(VERIF, "evidence", "%s.json" % pid), "w") as fh:
            json.dump(ev, fh, indent=1, default=str)

    for l in out_lines:
        print(l)
    if broken:
        for b in broken:
            print("BROKEN-MACHINERY property=%s: %s" % (pid, b))
        print("summary property=%s: machinery failed closed" % pid)
        return 2
    print("summary property=%s tier=%s obligations=%d discharged=%d functions=%d known=%d new=%d wall=%.1fs"
          % (pid, ctx.tier, ctx.obligations, ctx.discharged, len(ctx.analysed_fns),
             len(reobserved), len(new), time.time() - ctx.t0))
    return 1 if new else 0
