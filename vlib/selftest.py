"""Mutation self-test of a check (thorough tier only).

Seeded breaking changes that this check is recorded to catch (seeded/RESULTS.json) are applied, a few per run, to a
scratch copy of /repo's *current working tree*; the quick check is run against the copy (VERIF_REPO) in report-only
mode and has to raise a VIOLATION. A seed that no longer applies to the current tree is skipped (the tree moved on); a
seed that applies and is not reported means the rule has rotted: the check fails closed. The scratch copy lives under
the system temp directory for the duration of the run only and is removed afterwards.
"""
import json
import os
import shutil
import subprocess
import tempfile

from . import facts as F

PER_RUN = 2


def run(ctx, pid, seed):
    sd = os.path.join(F.VERIF, "seeded")
    rp = os.path.join(sd, "RESULTS.json")
    if not os.path.exists(rp):
        ctx.note("self-test: no seeded results recorded")
        return
    res = json.load(open(rp))
    cands = sorted(k for k, v in res.items() if pid in (v.get("caught_by") or [])
                   and os.path.exists(os.path.join(sd, k, "patch.diff")))
    if not cands:
        ctx.selftest["seeds"] = "none recorded as caught by this check"
        return
    start = (seed * PER_RUN) % len(cands)
    pick = [cands[(start + i) % len(cands)] for i in range(min(PER_RUN, len(cands)))]
    scratch = tempfile.mkdtemp(prefix="zverif_selftest_")
    out = {}
    try:
        r = subprocess.run(["rsync", "-a", "--exclude", "/target", "--exclude", "/.git", F.REPO.rstrip("/") + "/", scratch + "/"],
                           capture_output=True, text=True)
        if r.returncode != 0:
            ctx.note("self-test skipped: cannot copy the tree (%s)" % r.stderr[-200:])
            return
        env = dict(os.environ, VERIF_REPO=scratch, VERIF_SELFTEST="1", VERIF_TIER="quick")
        for k in pick:
            patch = os.path.join(sd, k, "patch.diff")
            a = subprocess.run(["git", "apply", patch], cwd=scratch, capture_output=True, text=True)
            if a.returncode != 0:
                out[k] = "skipped: does not apply to the current tree"
                continue
            try:
                c = subprocess.run(["./check", pid, "--tier", "quick"], cwd=F.VERIF, env=env, capture_output=True, text=True)
                caught = any(l.startswith("VIOLATION property=%s" % pid) for l in c.stdout.splitlines())
                broken = any(l.startswith("BROKEN-MACHINERY") for l in c.stdout.splitlines())
                out[k] = "caught" if caught else ("machinery failed closed on the mutant" if broken else "NOT caught")
                if not caught and not broken:
                    ctx.fixture_results["selftest:" + k] = False
                else:
                    ctx.fixture_results["selftest:" + k] = True
            finally:
                subprocess.run(["git", "apply", "-R", patch], cwd=scratch, capture_output=True, text=True)
    finally:
        shutil.rmtree(scratch, ignore_errors=True)
    ctx.selftest["seeded_mutants"] = out
    ctx.selftest["candidates"] = len(cands)
