"""E3: compile tiny external-user programs against the rmeta produced by the extraction run.

A witness file starts with header lines:
    //@ expect: fail E0597      (the program must be rejected with that code on the //~ERR line)
    //@ expect: ok              (compiling twin: must compile cleanly)
"""
import json
import os
import subprocess
import tempfile

from . import facts as F


def parse(path):
    src = open(path).read()
    expect = None
    errline = None
    for i, l in enumerate(src.splitlines(), 1):
        if l.startswith("//@ expect:"):
            expect = l.split(":", 1)[1].split()
        if "//~ERR" in l:
            errline = i
    return src, expect, errline


def compile_witness(path, rmeta, deps_dir):
    """returns (ok:bool, [(code, line, message)])"""
    with tempfile.TemporaryDirectory(prefix="zwit_", dir=os.path.join(F.CACHE)) as td:
        cmd = ["rustc", "+nightly", "--edition", "2024", "--crate-type", "bin", "--emit=metadata",
               "--error-format=json", "--extern", "zipora=" + rmeta, "-L", "dependency=" + deps_dir,
               "-Awarnings", "-o", os.path.join(td, "w.rmeta"), path]
        r = subprocess.run(cmd, env=F.base_env(), capture_output=True, text=True)
    errs = []
    for l in r.stderr.splitlines():
        if not l.startswith("{"):
            continue
        try:
            d = json.loads(l)
        except ValueError:
            continue
        if d.get("level") != "error":
            continue
        code = (d.get("code") or {}).get("code")
        line = None
        for sp in d.get("spans", []):
            if sp.get("is_primary"):
                line = sp.get("line_start")
        if code is None and "aborting due to" in d.get("message", ""):
            continue
        errs.append((code, line, d.get("message", "")[:160]))
    return r.returncode == 0, errs


def run_witness(ctx, rule, path, rmeta, deps_dir):
    """Evaluates one witness. Returns 'pass' | 'violation' | 'broken'."""
    name = os.path.basename(path)
    src, expect, errline = parse(path)
    ok, errs = compile_witness(path, rmeta, deps_dir)
    sample = {"witness": name, "expect": expect, "compiled": ok, "errors": errs[:3]}
    if expect is None:
        ctx.fixture_results["witness-header:" + name] = False
        return "broken"
    if expect[0] == "ok":
        # a twin that stops compiling means the witness pair is no longer meaningful
        ctx.obligation(rule, name, "twin", ok, sample=sample)
        if not ok:
            ctx.fixture_results["witness-twin:" + name] = False
            ctx.note("twin %s no longer compiles: %s" % (name, errs[:2]))
            return "broken"
        return "pass"
    code = expect[1]
    good = (not ok) and any(c == code and (errline is None or ln == errline) for c, ln, _ in errs) \
        and all(c == code for c, _, _ in errs)
    ctx.obligation(rule, name, "reject:" + code, good, sample=sample)
    if good:
        return "pass"
    if ok:
        ctx.violation(rule, name, "compiles",
                      "witness program that the property requires to be rejected (%s) compiles" % code,
                      os.path.relpath(path, F.VERIF), errline)
        return "violation"
    # rejected, but for another reason: the witness itself is stale
    ctx.fixture_results["witness-stale:" + name] = False
    ctx.note("witness %s rejected for an unexpected reason: %s" % (name, errs[:3]))
    return "broken"


def run_dir(ctx, rule, pid, config="default"):
    rmeta, info = ctx.rmeta(config)
    d = os.path.join(F.VERIF, "witness", pid)
    n = 0
    for f in sorted(os.listdir(d)):
        if f.endswith(".rs"):
            run_witness(ctx, rule, os.path.join(d, f), rmeta, info["deps_dir"])
            n += 1
    ctx.instance(rule + ".witnesses", n)
    return n
