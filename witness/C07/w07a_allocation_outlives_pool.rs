//@ expect: fail E0597
// C07 clause 3: an RAII allocation guard must not outlive the pool it frees into.
use zipora::memory::fixed_capacity_pool::{FixedCapacityMemoryPool, FixedCapacityPoolConfig};
fn main() {
    let a;
    {
        let pool = FixedCapacityMemoryPool::new(FixedCapacityPoolConfig::default()).unwrap();
        a = pool.allocate(64).unwrap(); //~ERR
    }
    drop(a);
}
