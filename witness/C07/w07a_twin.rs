//@ expect: ok
use zipora::memory::fixed_capacity_pool::{FixedCapacityMemoryPool, FixedCapacityPoolConfig};
fn main() {
    let pool = FixedCapacityMemoryPool::new(FixedCapacityPoolConfig::default()).unwrap();
    let a;
    {
        a = pool.allocate(64).unwrap();
    }
    drop(a);
}
