//@ expect: fail E0505
use zipora::memory::fixed_capacity_pool::{FixedCapacityMemoryPool, FixedCapacityPoolConfig};
fn main() {
    let pool = FixedCapacityMemoryPool::new(FixedCapacityPoolConfig::default()).unwrap();
    let a = pool.allocate(64).unwrap();
    let moved = Box::new(pool); //~ERR
    drop(a);
    drop(moved);
}
