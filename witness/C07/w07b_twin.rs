//@ expect: ok
use zipora::memory::fixed_capacity_pool::{FixedCapacityMemoryPool, FixedCapacityPoolConfig};
fn main() {
    let pool = FixedCapacityMemoryPool::new(FixedCapacityPoolConfig::default()).unwrap();
    let a = pool.allocate(64).unwrap();
    drop(a);
    let moved = Box::new(pool);
    drop(moved);
}
