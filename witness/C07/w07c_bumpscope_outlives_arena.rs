//@ expect: fail E0597
// positive control: BumpScope<'a> borrows its arena, so this is rejected today.
use zipora::memory::bump::BumpArena;
fn main() {
    let s;
    {
        let arena = BumpArena::new(4096).unwrap();
        s = arena.scope(); //~ERR
    }
    let _ = s.alloc::<u64>();
}
