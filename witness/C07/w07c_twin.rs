//@ expect: ok
use zipora::memory::bump::BumpArena;
fn main() {
    let arena = BumpArena::new(4096).unwrap();
    let s;
    {
        s = arena.scope();
    }
    let _ = s.alloc::<u64>();
}
