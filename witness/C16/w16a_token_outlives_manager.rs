//@ expect: fail E0597
// C16 clause 3: a token must not outlive the manager it calls back into on drop.
use zipora::fsa::version_sync::{ConcurrencyLevel, VersionManager};
fn main() {
    let token;
    {
        let vm = VersionManager::new(ConcurrencyLevel::MultiWriteMultiRead);
        token = vm.acquire_reader_token().unwrap(); //~ERR
    }
    drop(token);
}
