//@ expect: ok
use zipora::fsa::version_sync::{ConcurrencyLevel, VersionManager};
fn main() {
    let vm = VersionManager::new(ConcurrencyLevel::MultiWriteMultiRead);
    let token;
    {
        token = vm.acquire_reader_token().unwrap();
    }
    drop(token);
}
