//@ expect: fail E0505
// C16 clause 3: moving the manager (its address changes) while a token still points at it.
use zipora::fsa::version_sync::{ConcurrencyLevel, VersionManager};
fn main() {
    let vm = VersionManager::new(ConcurrencyLevel::MultiWriteMultiRead);
    let token = vm.acquire_writer_token().unwrap();
    let moved = Box::new(vm); //~ERR
    drop(token);
    drop(moved);
}
