//@ expect: ok
use zipora::fsa::version_sync::{ConcurrencyLevel, VersionManager};
fn main() {
    let vm = VersionManager::new(ConcurrencyLevel::MultiWriteMultiRead);
    let token = vm.acquire_writer_token().unwrap();
    drop(token);
    let moved = Box::new(vm);
    drop(moved);
}
