//@ expect: ok
use zipora::concurrency::work_stealing::Task;
fn run(t: Box<dyn Task>) {
    let _a = t.execute();
}
fn main() {
    let _ = run;
}
