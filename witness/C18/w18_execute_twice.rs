//@ expect: fail E0382
// C18 "never run twice": executing a task consumes it, so a second execute cannot type-check.
use zipora::concurrency::work_stealing::Task;
fn run(t: Box<dyn Task>) {
    let _a = t.execute();
    let _b = t.execute(); //~ERR
}
fn main() {
    let _ = run;
}
